package sstdrv

import (
	"bytes"
	"context"
	"fmt"
	"strings"

	"github.com/cockroachdb/pebble/internal/base"
	"github.com/cockroachdb/pebble/internal/cache"
	"github.com/cockroachdb/pebble/internal/sstableinternal"
	"github.com/cockroachdb/pebble/internal/keyspan"
	"github.com/cockroachdb/pebble/internal/testkeys"
	"github.com/cockroachdb/pebble/objstorage"
	"github.com/cockroachdb/pebble/sstable"
	"github.com/cockroachdb/pebble/sstable/virtual"
)

var copyFileNum int

var (
	resErr   = []int{-1}
	resPanic = []int{-2}
)

// VirtP mirrors the virt{} event: virtual bounds and synthetic transforms.
type VirtP struct {
	On      bool
	Vlo     int
	Vhi     int
	VhiIncl bool
	Ssuf    int
	Sseq    int
	Spfx    string // synthetic prefix bytes (identity on ranks)
}

// Exec executes script events against one real table and records results.
type Exec struct {
	U    *Univ
	VC   Vals
	Cfg  WCfg
	T    *Trace // nil: do not record (corruption runs collect results instead)
	Data []byte
	R    *sstable.Reader
	V    VirtP
	pts  map[int]sstable.Iterator
	frs  map[int]keyspan.FragmentIterator
	dead map[int]int
	succ map[int][]byte
	keep [][]byte
	// Res collects every step's result in order (C27).
	Res     []any
	Collect bool
	Tab     *Table
	Panics  []string
}

func (x *Exec) emit(e Ev) {
	if x.T != nil {
		x.T.Emit(e)
	}
}

func (x *Exec) CloseAll() {
	for _, it := range x.pts {
		func() {
			defer func() { recover() }()
			it.Close()
		}()
	}
	for _, it := range x.frs {
		func() {
			defer func() { recover() }()
			it.Close()
		}()
	}
	x.pts, x.frs, x.dead = map[int]sstable.Iterator{}, map[int]keyspan.FragmentIterator{}, map[int]int{}
	if x.R != nil {
		func() {
			defer func() { recover() }()
			x.R.Close()
		}()
		x.R = nil
	}
}

func (x *Exec) reset() {
	x.pts, x.frs, x.dead, x.succ = map[int]sstable.Iterator{}, map[int]keyspan.FragmentIterator{}, map[int]int{}, map[int][]byte{}
	x.V = VirtP{}
}

// OpenBytes opens a reader over table bytes.
func (x *Exec) OpenBytes(data []byte) (err error) {
	defer func() {
		if p := recover(); p != nil {
			err = fmt.Errorf("panic: %v", p)
		}
	}()
	x.Data = data
	r, err := sstable.NewMemReader(data, x.Cfg.ReaderOptions())
	if err != nil {
		return err
	}
	x.R = r
	return nil
}

// logical key bytes of a rank under the transforms in force
func (x *Exec) lkey(rank int) []byte {
	k := x.U.Key(rank)
	if x.V.Spfx != "" {
		return append([]byte(x.V.Spfx), k...)
	}
	return k
}

func (x *Exec) lrank(k []byte) int {
	if x.V.Spfx != "" {
		rest, ok := bytes.CutPrefix(k, []byte(x.V.Spfx))
		if !ok {
			return -1
		}
		k = rest
	}
	return x.U.Rank(k)
}

func (x *Exec) bound(rank int, none int) []byte {
	if rank == none {
		return nil
	}
	b := x.lkey(rank)
	x.keep = append(x.keep, b)
	return b
}

func (x *Exec) transforms() (sstable.IterTransforms, sstable.FragmentIterTransforms) {
	var t sstable.IterTransforms
	var ft sstable.FragmentIterTransforms
	if x.V.Sseq > 0 {
		t.SyntheticSeqNum = sstable.SyntheticSeqNum(x.V.Sseq)
		ft.SyntheticSeqNum = sstable.SyntheticSeqNum(x.V.Sseq)
	}
	ps := sstable.MakeSyntheticPrefixAndSuffix([]byte(x.V.Spfx), x.U.Suffix(x.V.Ssuf))
	t.SyntheticPrefixAndSuffix = ps
	ft.SyntheticPrefixAndSuffix = ps
	return t, ft
}

func (x *Exec) env() sstable.ReadEnv {
	if !x.V.On {
		return sstable.NoReadEnv
	}
	up := base.MakeInternalKey(x.lkey(x.V.Vhi), 0, base.InternalKeyKindSet)
	if !x.V.VhiIncl {
		up = base.MakeRangeDeleteSentinelKey(x.lkey(x.V.Vhi))
	}
	return sstable.ReadEnv{Virtual: &virtual.VirtualReaderParams{
		Lower:   base.MakeInternalKey(x.lkey(x.V.Vlo), base.SeqNumMax, base.InternalKeyKindMax),
		Upper:   up,
		FileNum: 1,
	}}
}

func (x *Exec) open(e Ev) (err error) {
	defer func() {
		if p := recover(); p != nil {
			err = fmt.Errorf("panic: %v", p)
		}
	}()
	h := e.I("h")
	tr, ftr := x.transforms()
	switch e.S("t") {
	case "pt":
		lim := sstable.NeverUseFilterBlock
		if x.Cfg.UseFilter {
			lim = sstable.AlwaysUseFilterBlock
		}
		it, err := x.R.NewPointIter(context.Background(), sstable.IterOptions{
			Lower: x.bound(e.I("lo"), 0), Upper: x.bound(e.I("hi"), x.U.R()),
			Transforms: tr, FilterBlockSizeLimit: lim, Env: x.env(),
			ReaderProvider: sstable.MakeTrivialReaderProvider(x.R), BlobContext: sstable.AssertNoBlobHandles,
		})
		if err != nil {
			return err
		}
		x.pts[h] = it
	case "rd":
		it, err := x.R.NewRawRangeDelIter(context.Background(), ftr, x.env())
		if err != nil {
			return err
		}
		if it == nil {
			it = keyspan.NewIter(testkeys.Comparer.Compare, nil)
		}
		x.frs[h] = it
	case "rk":
		it, err := x.R.NewRawRangeKeyIter(context.Background(), ftr, x.env())
		if err != nil {
			return err
		}
		if it == nil {
			it = keyspan.NewIter(testkeys.Comparer.Compare, nil)
		}
		x.frs[h] = it
	}
	return nil
}

func (x *Exec) ptResult(it sstable.Iterator, kv *base.InternalKV) []int {
	if kv == nil {
		if it.Error() != nil {
			return resErr
		}
		return []int{}
	}
	v, _, err := kv.Value(nil)
	if err != nil {
		return resErr
	}
	return []int{x.lrank(kv.K.UserKey), int(kv.SeqNum()), int(kv.Kind()), x.VC.Dec(v)}
}

func (x *Exec) ptOp(h int, o string, k int, f int) (res []int) {
	it := x.pts[h]
	if x.dead[h] == 1 {
		return resErr
	}
	if it == nil || x.dead[h] == 2 {
		return resPanic
	}
	defer func() {
		if p := recover(); p != nil {
			x.dead[h] = 2
			x.Panics = append(x.Panics, fmt.Sprint(p))
			res = resPanic
		}
	}()
	flags := base.SeekGEFlagsNone
	if f == 1 {
		flags = flags.EnableTrySeekUsingNext()
	}
	var kv *base.InternalKV
	switch o {
	case "first":
		kv = it.First()
	case "last":
		kv = it.Last()
	case "next":
		kv = it.Next()
	case "prev":
		kv = it.Prev()
	case "seekge":
		kb := x.lkey(k)
		x.keep = append(x.keep, kb)
		kv = it.SeekGE(kb, flags)
	case "seeklt":
		kb := x.lkey(k)
		x.keep = append(x.keep, kb)
		kv = it.SeekLT(kb, base.SeekLTFlagsNone)
	case "seekprefixge":
		kb := x.lkey(k)
		x.keep = append(x.keep, kb)
		pfx := kb[:testkeys.Comparer.Split(kb)]
		kv = it.SeekPrefixGE(pfx, kb, flags)
	case "nextprefix":
		// succKey = ImmediateSuccessor(prefix of the current key); the driver
		// tracks the current key from the last result.
		kv = it.NextPrefix(x.succ[h])
	}
	res = x.ptResult(it, kv)
	if kv != nil {
		uk := kv.K.UserKey
		pfx := uk[:testkeys.Comparer.Split(uk)]
		x.succ[h] = testkeys.Comparer.ImmediateSuccessor(nil, pfx)
	}
	return res
}

func (x *Exec) setBounds(h, lo, hi int) {
	it := x.pts[h]
	if it == nil || x.dead[h] != 0 {
		return
	}
	defer func() {
		if p := recover(); p != nil {
			x.dead[h] = 2
			x.Panics = append(x.Panics, fmt.Sprint(p))
		}
	}()
	it.SetBounds(x.bound(lo, 0), x.bound(hi, x.U.R()))
}

func (x *Exec) spanResult(s *keyspan.Span, err error) []any {
	if err != nil {
		return []any{-1}
	}
	if s == nil {
		return []any{}
	}
	ks := make([][]int, 0, len(s.Keys))
	for _, k := range s.Keys {
		ks = append(ks, []int{int(k.SeqNum()), int(k.Kind()), x.U.SuffixNum(k.Suffix), x.VC.Dec(k.Value)})
	}
	canonKeys(ks)
	return []any{x.lrank(s.Start), x.lrank(s.End), ks}
}

func (x *Exec) frOp(h int, o string, k int) (res []any) {
	it := x.frs[h]
	if x.dead[h] == 1 {
		return []any{-1}
	}
	if it == nil || x.dead[h] == 2 {
		return []any{-2}
	}
	defer func() {
		if p := recover(); p != nil {
			x.dead[h] = 2
			x.Panics = append(x.Panics, fmt.Sprint(p))
			res = []any{-2}
		}
	}()
	switch o {
	case "first":
		return x.spanResult(it.First())
	case "last":
		return x.spanResult(it.Last())
	case "next":
		return x.spanResult(it.Next())
	case "prev":
		return x.spanResult(it.Prev())
	case "seekge":
		return x.spanResult(it.SeekGE(x.lkey(k)))
	case "seeklt":
		return x.spanResult(it.SeekLT(x.lkey(k)))
	}
	return []any{-2}
}

// Step executes one script event (other than table) and records it.
func (x *Exec) Step(e Ev) {
	switch e.S("op") {
	case "virt":
		x.V = VirtP{On: e.B("on"), Vlo: e.I("vlo"), Vhi: e.I("vhi"), VhiIncl: e.B("vhiincl"), Ssuf: e.I("ssuf"), Sseq: e.I("sseq"), Spfx: e.S("spfx")}
		x.emit(Ev{"op": "virt", "vlo": x.V.Vlo, "vhi": x.V.Vhi, "vhiincl": x.V.VhiIncl, "ssuf": x.V.Ssuf, "sseq": x.V.Sseq})
	case "open":
		if err := x.open(e); err != nil {
			x.dead[e.I("h")] = 1
			if strings.HasPrefix(err.Error(), "panic:") {
				x.dead[e.I("h")] = 2
				x.Panics = append(x.Panics, err.Error())
			}
		}
		x.emit(Ev{"op": "open", "h": e.I("h"), "t": e.S("t"), "lo": e.I("lo"), "hi": e.I("hi")})
	case "close":
		h := e.I("h")
		if it := x.pts[h]; it != nil {
			func() { defer func() { recover() }(); it.Close() }()
			delete(x.pts, h)
		}
		if it := x.frs[h]; it != nil {
			func() { defer func() { recover() }(); it.Close() }()
			delete(x.frs, h)
		}
		x.emit(Ev{"op": "close", "h": h})
	case "setb":
		// reuse: the same real iterator is re-bound (pebble.Iterator.SetBounds,
		// levelIter moving on); the bounds stay alive until the next SetBounds
		x.setBounds(e.I("h"), e.I("lo"), e.I("hi"))
		x.emit(Ev{"op": "setb", "h": e.I("h"), "lo": e.I("lo"), "hi": e.I("hi")})
	case "it":
		res := x.ptOp(e.I("h"), e.S("o"), e.I("k"), e.I("f"))
		if x.Collect {
			x.Res = append(x.Res, res)
		}
		x.emit(Ev{"op": "it", "h": e.I("h"), "o": e.S("o"), "k": e.I("k"), "f": e.I("f"), "res": res})
	case "fit":
		res := x.frOp(e.I("h"), e.S("o"), e.I("k"))
		if x.Collect {
			x.Res = append(x.Res, res)
		}
		x.emit(Ev{"op": "fit", "h": e.I("h"), "o": e.S("o"), "k": e.I("k"), "res": res})
	case "copyspan":
		x.V = VirtP{}
		x.copySpan(e)
	}
}

// copySpan runs the real CopySpan over [a, b) and reads the output back.  The
// reader gets a fresh (cold) block cache; the blocks holding the keys listed in
// "warm" are read through that cache first, so that the copy meets runs of cold
// blocks broken by cache hits.
func (x *Exec) copySpan(e Ev) {
	a, b := e.I("a"), e.I("b")
	warm := []int{}
	for _, w := range e.L("warm") {
		warm = append(warm, toInt(w))
	}
	out := [][]int{}
	fail := func(msg string) {
		x.emit(Ev{"op": "copyspan", "a": a, "b": b, "warm": warm, "out": [][]int{{-1, 0, 0, 0}}, "note": msg})
	}
	defer func() {
		if p := recover(); p != nil {
			x.Panics = append(x.Panics, fmt.Sprint(p))
			x.emit(Ev{"op": "copyspan", "a": a, "b": b, "warm": warm, "out": [][]int{{-2, 0, 0, 0}}, "note": fmt.Sprintf("panic: %v", p)})
		}
	}()
	in := &objstorage.MemObj{}
	in.Write(append([]byte(nil), x.Data...))
	// CopySpan consults the block cache: the reader needs a cache handle
	blockCache := cache.New(16 << 20)
	defer blockCache.Unref()
	ch := blockCache.NewHandle()
	defer ch.Close()
	copyFileNum++
	ro := x.Cfg.ReaderOptions()
	ro.CacheOpts = sstableinternal.CacheOptions{CacheHandle: ch, FileNum: base.DiskFileNum(copyFileNum)}
	r, err := sstable.NewReader(context.Background(), in, ro)
	if err != nil {
		fail(err.Error())
		return
	}
	defer r.Close()
	if len(warm) > 0 {
		wit, err := r.NewIter(sstable.NoTransforms, nil, nil, sstable.AssertNoBlobHandles)
		if err != nil {
			fail(err.Error())
			return
		}
		for _, k := range warm {
			wit.SeekGE(x.U.Key(k), base.SeekGEFlagsNone)
		}
		if err := wit.Close(); err != nil {
			fail(err.Error())
			return
		}
	}
	dst := &objstorage.MemObj{}
	start := base.MakeInternalKey(x.U.Key(a), base.SeqNumMax, base.InternalKeyKindMax)
	end := base.MakeRangeDeleteSentinelKey(x.U.Key(b))
	_, err = sstable.CopySpan(context.Background(), in, r, 0, dst, x.Cfg.WriterOptions(), start, end)
	if err != nil {
		if err == sstable.ErrEmptySpan {
			x.emit(Ev{"op": "copyspan", "a": a, "b": b, "warm": warm, "out": out, "note": "emptyspan"})
			return
		}
		fail(err.Error())
		return
	}
	r2, err := sstable.NewMemReader(dst.Data(), x.Cfg.ReaderOptions())
	if err != nil {
		fail(err.Error())
		return
	}
	defer r2.Close()
	it, err := r2.NewIter(sstable.NoTransforms, nil, nil, sstable.AssertNoBlobHandles)
	if err != nil {
		fail(err.Error())
		return
	}
	defer it.Close()
	for kv := it.First(); kv != nil; kv = it.Next() {
		v, _, verr := kv.Value(nil)
		if verr != nil {
			fail(verr.Error())
			return
		}
		out = append(out, []int{x.U.Rank(kv.K.UserKey), int(kv.SeqNum()), int(kv.Kind()), x.VC.Dec(v)})
	}
	if it.Error() != nil {
		fail(it.Error().Error())
		return
	}
	x.emit(Ev{"op": "copyspan", "a": a, "b": b, "warm": warm, "out": out, "note": ""})
}

// RunScript builds the script's table under cfg and replays the script.
func RunScript(script []Ev, cfg WCfg, p, s int, t *Trace) error {
	x := &Exec{U: NewUniv(p, s, cfg.Shape), VC: Vals{Sizes: cfg.ValSizes}, Cfg: cfg, T: t}
	x.reset()
	defer x.CloseAll()
	for _, e := range script {
		if e.S("op") == "table" {
			x.CloseAll()
			x.reset()
			x.Tab = TableFromEv(e)
			data, err := Build(x.U, x.VC, cfg, x.Tab)
			if err != nil {
				return fmt.Errorf("write failed under %s: %v", cfg.Name, err)
			}
			if err := x.OpenBytes(data); err != nil {
				return fmt.Errorf("open failed under %s: %v", cfg.Name, err)
			}
			x.emit(x.Tab.Event(cfg.Name))
			continue
		}
		x.Step(e)
	}
	return nil
}
