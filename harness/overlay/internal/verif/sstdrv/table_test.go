package sstdrv

import (
	"fmt"
	"sort"

	"github.com/cockroachdb/pebble/internal/base"
	"github.com/cockroachdb/pebble/internal/keyspan"
	"github.com/cockroachdb/pebble/internal/testkeys"
	"github.com/cockroachdb/pebble/objstorage"
	"github.com/cockroachdb/pebble/sstable"
	"github.com/cockroachdb/pebble/sstable/block"
	"github.com/cockroachdb/pebble/sstable/colblk"
	"github.com/cockroachdb/pebble/sstable/tablefilters"
	"github.com/cockroachdb/pebble/sstable/tablefilters/binaryfuse"
	"github.com/cockroachdb/pebble/sstable/tablefilters/bloom"
)

// WCfg is one writer configuration of the options matrix (DESIGN C25).  The
// model knows none of these: what is read back must not depend on them.
type WCfg struct {
	Name      string
	Format    sstable.TableFormat
	BlockSize int
	IndexSize int
	Restart   int
	Compress  string // none snappy zstd minlz
	Filter    string // none bloom10 bloom1 fuse8
	NoValBlk  bool
	XXHash    bool
	Shape     string
	ValSizes  []int
	UseFilter bool // reader side: AlwaysUseFilterBlock vs NeverUseFilterBlock
}

var defaultValSizes = []int{0, 3, 40, 0, 5000, 1, 0, 300}

func compressionOf(n string) *sstable.CompressionProfile {
	switch n {
	case "none":
		return sstable.NoCompression
	case "zstd":
		return sstable.ZstdCompression
	case "minlz":
		return sstable.MinLZCompression
	}
	return sstable.SnappyCompression
}

func filterOf(n string) base.TableFilterPolicy {
	switch n {
	case "bloom10":
		return bloom.FilterPolicy(10)
	case "bloom1":
		return bloom.FilterPolicy(1)
	case "fuse8":
		return binaryfuse.FilterPolicy(8)
	}
	return base.NoFilterPolicy
}

var keySchema = colblk.DefaultKeySchema(testkeys.Comparer, 16)

// AllFormats are the table formats the writer supports.
func AllFormats() []sstable.TableFormat {
	var r []sstable.TableFormat
	for f := sstable.TableFormatMinSupported; f <= sstable.TableFormatMax; f++ {
		r = append(r, f)
	}
	return r
}

// Matrix returns the configurations of a tier.  quick: every format crossed
// with two extreme shapes plus one-dimension variations on the newest formats;
// thorough: a much larger cross product.
func Matrix(tier string) []WCfg {
	var r []WCfg
	add := func(c WCfg) {
		if c.ValSizes == nil {
			c.ValSizes = defaultValSizes
		}
		if c.Shape == "" {
			c.Shape = "short"
		}
		if c.Restart == 0 {
			c.Restart = 16
		}
		c.Name = fmt.Sprintf("%s/bs%d/ibs%d/r%d/%s/%s/vb%v/%s/x%v/uf%v", c.Format, c.BlockSize, c.IndexSize, c.Restart,
			c.Compress, c.Filter, !c.NoValBlk, c.Shape, c.XXHash, c.UseFilter)
		r = append(r, c)
	}
	fs := AllFormats()
	if tier == "quick" {
		for i, f := range fs {
			// tiny everything: one entry per data block, one entry per index block (two-level), restart 1
			add(WCfg{Format: f, BlockSize: 1, IndexSize: 1, Restart: 1, Compress: "none", Filter: "bloom10", UseFilter: true,
				Shape: []string{"short", "mixed", "long"}[i%3]})
			// defaults: everything in one block
			add(WCfg{Format: f, BlockSize: 4096, IndexSize: 4096, Restart: 16, Compress: "snappy", Filter: "none",
				Shape: []string{"long", "short", "mixed"}[i%3], NoValBlk: i%2 == 1})
		}
		newest := fs[len(fs)-1]
		row := sstable.TableFormatPebblev4
		for _, f := range []sstable.TableFormat{row, newest} {
			add(WCfg{Format: f, BlockSize: 64, IndexSize: 32, Restart: 2, Compress: "zstd", Filter: "bloom1", UseFilter: true, Shape: "mixed"})
			add(WCfg{Format: f, BlockSize: 200, IndexSize: 4096, Restart: 16, Compress: "minlz", Filter: "fuse8", UseFilter: true, XXHash: true})
			add(WCfg{Format: f, BlockSize: 32, IndexSize: 4096, Restart: 1, Compress: "snappy", Filter: "bloom10", UseFilter: false, NoValBlk: true, Shape: "long"})
		}
		return r
	}
	for _, f := range fs {
		for bi, bs := range []int{1, 24, 64, 200, 4096} {
			for ii, ibs := range []int{1, 40, 4096} {
				for ri, rs := range []int{1, 16} {
					n := int(f) + bi + ii + ri
					add(WCfg{Format: f, BlockSize: bs, IndexSize: ibs, Restart: rs,
						Compress: []string{"none", "snappy", "zstd", "minlz"}[n%4],
						Filter:   []string{"none", "bloom10", "bloom1", "fuse8"}[(n/2)%4],
						UseFilter: n%3 != 0, NoValBlk: n%5 == 0, XXHash: n%7 == 0,
						Shape: []string{"short", "mixed", "long"}[n%3]})
				}
			}
		}
	}
	return r
}

func (c WCfg) WriterOptions() sstable.WriterOptions {
	o := sstable.WriterOptions{
		BlockRestartInterval: c.Restart,
		BlockSize:            c.BlockSize,
		IndexBlockSize:       c.IndexSize,
		Comparer:             testkeys.Comparer,
		Compression:          compressionOf(c.Compress),
		FilterPolicy:         filterOf(c.Filter),
		TableFormat:          c.Format,
		DisableValueBlocks:   c.NoValBlk,
		KeySchema:            &keySchema,
		BlockPropertyCollectors: []func() sstable.BlockPropertyCollector{sstable.NewTestKeysBlockPropertyCollector},
	}
	if c.XXHash {
		o.Checksum = block.ChecksumTypeXXHash64
	}
	return o
}

func (c WCfg) ReaderOptions() sstable.ReaderOptions {
	return sstable.ReaderOptions{
		Comparer:       testkeys.Comparer,
		KeySchemas:     sstable.MakeKeySchemas(&keySchema),
		FilterDecoders: tablefilters.Decoders,
	}
}

// Table is the logical content handed to the writer: the trace's table event.
type Table struct {
	Pts [][]int // k, seq, kind, v
	Rd  []Frag
	Rk  []Frag
}

// Frag is one fragment: [a, b) with keys (seq, kind, suffix, v) in canonical
// order (trailer descending, then suffix).
type Frag struct {
	A, B int
	Keys [][]int
}

func canonKeys(ks [][]int) {
	sort.SliceStable(ks, func(i, j int) bool {
		a, b := ks[i], ks[j]
		if a[0] != b[0] {
			return a[0] > b[0]
		}
		if a[1] != b[1] {
			return a[1] > b[1]
		}
		return a[2] > b[2]
	})
}

func fragsJSON(fs []Frag) []any {
	r := make([]any, 0, len(fs))
	for _, f := range fs {
		r = append(r, []any{f.A, f.B, f.Keys})
	}
	return r
}

func (t *Table) Event(cfg string) Ev {
	pts := t.Pts
	if pts == nil {
		pts = [][]int{}
	}
	return Ev{"op": "table", "cfg": cfg, "pts": pts, "rd": fragsJSON(t.Rd), "rk": fragsJSON(t.Rk)}
}

// TableFromEv parses a script's table event.
func TableFromEv(e Ev) *Table {
	t := &Table{}
	for _, p := range e.L("pts") {
		t.Pts = append(t.Pts, ints(p))
	}
	pf := func(name string) []Frag {
		var r []Frag
		for _, x := range e.L(name) {
			f := x.([]any)
			fr := Frag{A: toInt(f[0]), B: toInt(f[1])}
			for _, k := range f[2].([]any) {
				fr.Keys = append(fr.Keys, ints(k))
			}
			canonKeys(fr.Keys)
			r = append(r, fr)
		}
		return r
	}
	t.Rd, t.Rk = pf("rd"), pf("rk")
	return t
}

// Build writes the table with the real RawWriter under cfg and returns the bytes.
func Build(u *Univ, vc Vals, c WCfg, t *Table) ([]byte, error) {
	obj := &objstorage.MemObj{}
	w := sstable.NewRawWriter(obj, c.WriterOptions())
	for _, p := range t.Pts {
		ik := base.MakeInternalKey(u.Key(p[0]), base.SeqNum(p[1]), base.InternalKeyKind(p[2]))
		if err := w.Add(ik, vc.Enc(p[3]), false, base.KVMeta{}); err != nil {
			w.Close()
			return nil, err
		}
	}
	enc := func(fs []Frag) error {
		for _, f := range fs {
			sp := keyspan.Span{Start: u.Key(f.A), End: u.Key(f.B)}
			for _, k := range f.Keys {
				sp.Keys = append(sp.Keys, keyspan.Key{
					Trailer: base.MakeTrailer(base.SeqNum(k[0]), base.InternalKeyKind(k[1])),
					Suffix:  u.Suffix(k[2]),
					Value:   vc.Enc(k[3]),
				})
			}
			if err := w.EncodeSpan(sp); err != nil {
				return err
			}
		}
		return nil
	}
	if err := enc(t.Rd); err != nil {
		w.Close()
		return nil, err
	}
	if err := enc(t.Rk); err != nil {
		w.Close()
		return nil, err
	}
	if err := w.Close(); err != nil {
		return nil, err
	}
	return append([]byte(nil), obj.Data()...), nil
}
