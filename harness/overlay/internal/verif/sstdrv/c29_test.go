package sstdrv

import (
	"fmt"
	"math/rand/v2"
	"path/filepath"
	"testing"

	"github.com/cockroachdb/pebble/sstable"
)

// genVirt draws virtual bounds / synthetic transforms permitted by the
// documented preconditions for this table (nil if none applies).
func genVirt(rng *rand.Rand, p, s int, tab *Table) Ev {
	r := p * (s + 1)
	v := Ev{"op": "virt", "on": false, "vlo": 0, "vhi": r, "vhiincl": false, "ssuf": 0, "sseq": 0, "spfx": ""}
	// virtual bounds
	if rng.IntN(4) != 0 {
		lo := rng.IntN(r)
		hi := lo + rng.IntN(r-lo+1)
		incl := false
		if hi == lo || (hi < r && rng.IntN(3) == 0) {
			incl = true
			if hi >= r {
				hi = r - 1
			}
		}
		if incl {
			// an inclusive upper bound must not be contained in a span
			for _, f := range append(append([]Frag{}, tab.Rd...), tab.Rk...) {
				if f.A <= hi && hi < f.B {
					incl = false
					if hi == lo {
						hi = lo + 1
					}
				}
			}
		}
		v["on"], v["vlo"], v["vhi"], v["vhiincl"] = true, lo, hi, incl
	}
	if rng.IntN(2) == 0 {
		v["spfx"] = []string{"p_", "syntheticprefix/"}[rng.IntN(2)]
	}
	// synthetic seqnum: at most one version per user key, fragments with one key
	oneVersion := true
	for i := 1; i < len(tab.Pts); i++ {
		if tab.Pts[i][0] == tab.Pts[i-1][0] {
			oneVersion = false
		}
	}
	if oneVersion && rng.IntN(2) == 0 {
		v["sseq"] = 9
	}
	// synthetic suffix: one key per prefix, every key suffixed, new suffix sorts first,
	// no range deletions, range keys only sets
	ok := len(tab.Rd) == 0
	maxSuf := 0
	pf := map[int]bool{}
	for _, e := range tab.Pts {
		pfx, pos := e[0]/(s+1), e[0]%(s+1)
		if pos == 0 || pf[pfx] {
			ok = false
		}
		pf[pfx] = true
		if suf := s + 1 - pos; suf > maxSuf {
			maxSuf = suf
		}
	}
	for _, f := range tab.Rk {
		for _, k := range f.Keys {
			if k[1] != 21 {
				ok = false
			}
			if k[2] > maxSuf {
				maxSuf = k[2]
			}
		}
	}
	if ok && maxSuf < s && rng.IntN(3) != 0 {
		v["ssuf"] = maxSuf + 1 + rng.IntN(s-maxSuf)
	}
	if v["spfx"] != "" && len(tab.Rk) > 0 {
		// "a block with range keys cannot be iterated over with a synthetic prefix"
		v["spfx"] = ""
	}
	return v
}

// GenTableForSuffix draws a table satisfying the synthetic-suffix preconditions.
func GenTableForSuffix(rng *rand.Rand, p, s int) *Table {
	t := &Table{}
	id := 1
	for pf := 0; pf < p; pf++ {
		if rng.IntN(3) == 0 {
			continue
		}
		suf := 1 + rng.IntN(s-1)
		t.Pts = append(t.Pts, []int{pf*(s+1) + (s + 1 - suf), 1 + rng.IntN(3), []int{1, 1, 0, 2, 18}[rng.IntN(5)], 0})
		e := t.Pts[len(t.Pts)-1]
		if e[2] != 0 {
			e[3] = id
			id++
		}
	}
	return t
}

// TestC29: virtual readers, synthetic prefix/suffix/seqnum, CopySpan.
func TestC29(t *testing.T) {
	out := envStr("VERIF_OUT", "")
	if out == "" {
		t.Skip("VERIF_OUT not set")
	}
	tier := envStr("VERIF_TIER", "quick")
	seed := uint64(envInt("VERIF_SEED", 1))
	all := Matrix(tier)
	// a spread of the matrix: every format, both extremes
	var cfgs []WCfg
	for i, c := range all {
		if tier != "quick" || i < 2*len(AllFormats()) {
			if tier == "quick" || i%5 == 0 {
				cfgs = append(cfgs, c)
			}
		}
	}
	p, s := envInt("VERIF_P", 4), envInt("VERIF_S", 3)
	nt := envInt("VERIF_TABLES", 20)
	ops := envInt("VERIF_OPS", 20)
	rng := rand.New(rand.NewPCG(seed, 0xC29))
	var tabs []*Table
	if sf := envStr("VERIF_SCRIPTFILE", ""); sf != "" {
		// tables of TLC-generated scripts (same universe)
		scripts, err := readScripts(sf)
		must(err)
		for _, sc := range scripts {
			tabs = append(tabs, TableFromEv(sc[0]))
		}
	}
	for i := 0; i < nt; i++ {
		switch i % 3 {
		case 0:
			tabs = append(tabs, GenTableForSuffix(rng, p, s))
		case 1:
			tabs = append(tabs, GenTable(rng, p, s, 1, 10, true, false)) // one seqnum: synthetic seqnum applies
		default:
			tabs = append(tabs, GenTable(rng, p, s, 4, []int{4, 10, 20}[i%3], i%2 == 0, false))
		}
	}
	nEvents, nTables, nFiles, nVirt, nCopy := 0, 0, 0, 0, 0
	var tr *Trace
	inFile := 0
	rotate := func() {
		if tr != nil && inFile < 4000 {
			return
		}
		if tr != nil {
			nEvents += tr.N
			must(tr.Close())
		}
		nFiles++
		var err error
		tr, err = NewTrace(filepath.Join(out, fmt.Sprintf("c29-%d-%04d.ndjson", seed, nFiles)))
		must(err)
		inFile = 0
	}
	for _, tab := range tabs {
		var ok []WCfg
		for _, c := range cfgs {
			if c.Format >= minFormat(tab) {
				ok = append(ok, c)
			}
		}
		for rep := 0; rep < 2; rep++ {
			virt := genVirt(rng, p, s, tab)
			ncopy := 0
			if rep == 0 {
				ncopy = 2
			}
			li := rng.IntN(len(ok))
			rotate()
			script, err := GenScriptV(rng, ok[li], p, s, tab, 2, ops, tr, virt, ncopy, 1)
			if err != nil {
				fmt.Printf("DRIVER-FAIL leader %s: %v\n", ok[li].Name, err)
				tr.Emit(Ev{"op": "fail", "err": err.Error()})
				continue
			}
			nVirt++
			nCopy += ncopy
			inFile += len(script)
			nTables++
			for j, c := range ok {
				if j == li || (j+rep)%2 == 0 {
					continue
				}
				rotate()
				if err := RunScript(script, c, p, s, tr); err != nil {
					fmt.Printf("DRIVER-FAIL %v\n", err)
					tr.Emit(Ev{"op": "fail", "err": err.Error()})
				}
				inFile += len(script)
				nTables++
			}
		}
	}
	if tr != nil {
		nEvents += tr.N
		must(tr.Close())
	}
	_ = sstable.TableFormatMax
	fmt.Printf("DRIVER-DONE traces=%d events=%d tables=%d configs=%d virtparams=%d copyspans=%d\n", nFiles, nEvents, nTables, len(cfgs), nVirt, nCopy)
}
