package sstdrv

import (
	"fmt"
	"math/rand/v2"
	"path/filepath"
	"sort"
	"testing"

	"github.com/cockroachdb/pebble/sstable"
)

// genVirt draws virtual bounds / synthetic transforms permitted by the
// documented preconditions for this table (nil if none applies).
func genVirt(rng *rand.Rand, p, s int, tab *Table) Ev {
	r := p * (s + 1)
	v := Ev{"op": "virt", "on": false, "vlo": 0, "vhi": r, "vhiincl": false, "ssuf": 0, "sseq": 0, "spfx": ""}
	// virtual bounds
	if rng.IntN(4) != 0 {
		lo := rng.IntN(r)
		hi := lo + rng.IntN(r-lo+1)
		incl := false
		if hi == lo || (hi < r && rng.IntN(3) == 0) {
			incl = true
			if hi >= r {
				hi = r - 1
			}
		}
		if incl {
			// an inclusive upper bound must not be contained in a span
			for _, f := range append(append([]Frag{}, tab.Rd...), tab.Rk...) {
				if f.A <= hi && hi < f.B {
					incl = false
					if hi == lo {
						hi = lo + 1
					}
				}
			}
		}
		v["on"], v["vlo"], v["vhi"], v["vhiincl"] = true, lo, hi, incl
	}
	if rng.IntN(2) == 0 {
		v["spfx"] = []string{"p_", "syntheticprefix/"}[rng.IntN(2)]
	}
	// synthetic seqnum: at most one version per user key, fragments with one key
	oneVersion := true
	for i := 1; i < len(tab.Pts); i++ {
		if tab.Pts[i][0] == tab.Pts[i-1][0] {
			oneVersion = false
		}
	}
	if oneVersion && rng.IntN(2) == 0 {
		v["sseq"] = 9
	}
	// synthetic suffix: one key per prefix, every key suffixed, new suffix sorts first,
	// no range deletions, range keys only sets
	ok := len(tab.Rd) == 0
	maxSuf := 0
	pf := map[int]bool{}
	for _, e := range tab.Pts {
		pfx, pos := e[0]/(s+1), e[0]%(s+1)
		if pos == 0 || pf[pfx] {
			ok = false
		}
		pf[pfx] = true
		if suf := s + 1 - pos; suf > maxSuf {
			maxSuf = suf
		}
	}
	for _, f := range tab.Rk {
		for _, k := range f.Keys {
			if k[1] != 21 {
				ok = false
			}
			if k[2] > maxSuf {
				maxSuf = k[2]
			}
		}
	}
	if ok && maxSuf < s && rng.IntN(3) != 0 {
		v["ssuf"] = maxSuf + 1 + rng.IntN(s-maxSuf)
	}
	if v["spfx"] != "" && len(tab.Rk) > 0 {
		// "a block with range keys cannot be iterated over with a synthetic prefix"
		v["spfx"] = ""
	}
	return v
}

// GenTableForSuffix draws a table satisfying the synthetic-suffix preconditions.
func GenTableForSuffix(rng *rand.Rand, p, s int) *Table {
	t := &Table{}
	id := 1
	for pf := 0; pf < p; pf++ {
		if rng.IntN(3) == 0 {
			continue
		}
		suf := 1 + rng.IntN(s-1)
		t.Pts = append(t.Pts, []int{pf*(s+1) + (s + 1 - suf), 1 + rng.IntN(3), []int{1, 1, 0, 2, 18}[rng.IntN(5)], 0})
		e := t.Pts[len(t.Pts)-1]
		if e[2] != 0 {
			e[3] = id
			id++
		}
	}
	return t
}

// TestC29: virtual readers, synthetic prefix/suffix/seqnum, CopySpan.
func TestC29(t *testing.T) {
	out := envStr("VERIF_OUT", "")
	if out == "" {
		t.Skip("VERIF_OUT not set")
	}
	tier := envStr("VERIF_TIER", "quick")
	seed := uint64(envInt("VERIF_SEED", 1))
	all := Matrix(tier)
	// a spread of the matrix: every format, both extremes
	var cfgs []WCfg
	for i, c := range all {
		if tier != "quick" || i < 2*len(AllFormats()) {
			if tier == "quick" || i%5 == 0 {
				cfgs = append(cfgs, c)
			}
		}
	}
	p, s := envInt("VERIF_P", 4), envInt("VERIF_S", 3)
	nt := envInt("VERIF_TABLES", 20)
	ops := envInt("VERIF_OPS", 20)
	rng := rand.New(rand.NewPCG(seed, 0xC29))
	var tabs []*Table
	if sf := envStr("VERIF_SCRIPTFILE", ""); sf != "" {
		// tables of TLC-generated scripts (same universe)
		scripts, err := readScripts(sf)
		must(err)
		for _, sc := range scripts {
			tabs = append(tabs, TableFromEv(sc[0]))
		}
	}
	for i := 0; i < nt; i++ {
		switch i % 3 {
		case 0:
			tabs = append(tabs, GenTableForSuffix(rng, p, s))
		case 1:
			tabs = append(tabs, GenTable(rng, p, s, 1, 10, true, false)) // one seqnum: synthetic seqnum applies
		default:
			tabs = append(tabs, GenTable(rng, p, s, 4, []int{4, 10, 20}[i%3], i%2 == 0, false))
		}
	}
	nEvents, nTables, nFiles, nVirt, nCopy := 0, 0, 0, 0, 0
	var tr *Trace
	inFile := 0
	rotate := func() {
		if tr != nil && inFile < 4000 {
			return
		}
		if tr != nil {
			nEvents += tr.N
			must(tr.Close())
		}
		nFiles++
		var err error
		tr, err = NewTrace(filepath.Join(out, fmt.Sprintf("c29-%d-%04d.ndjson", seed, nFiles)))
		must(err)
		inFile = 0
	}
	for _, tab := range tabs {
		var ok []WCfg
		for _, c := range cfgs {
			if c.Format >= minFormat(tab) {
				ok = append(ok, c)
			}
		}
		for rep := 0; rep < 2; rep++ {
			virt := genVirt(rng, p, s, tab)
			ncopy := 0
			if rep == 0 {
				ncopy = 2
			}
			li := rng.IntN(len(ok))
			rotate()
			script, err := GenScriptV(rng, ok[li], p, s, tab, 2, ops, tr, virt, ncopy, 1)
			if err != nil {
				fmt.Printf("DRIVER-FAIL leader %s: %v\n", ok[li].Name, err)
				tr.Emit(Ev{"op": "fail", "err": err.Error()})
				continue
			}
			nVirt++
			nCopy += ncopy
			inFile += len(script)
			nTables++
			for j, c := range ok {
				if j == li || (j+rep)%2 == 0 {
					continue
				}
				rotate()
				if err := RunScript(script, c, p, s, tr); err != nil {
					fmt.Printf("DRIVER-FAIL %v\n", err)
					tr.Emit(Ev{"op": "fail", "err": err.Error()})
				}
				inFile += len(script)
				nTables++
			}
		}
	}
	// CopySpan over runs of cold data blocks longer than the writer's read-size target
	// (spec/InternalIter/CopyBatch.tla): tables of a few hundred KiB to a few MiB
	nBig, nBigCopy, maxBatches := envInt("VERIF_BIGCOPY", 2), 0, 0
	for bi := 0; bi < nBig; bi++ {
		prof := bigProfiles[(bi+int(seed))%len(bigProfiles)]
		tab := GenBigTable(rng, p, s, prof.n)
		for ci, c := range bigCfgs(bi, int(seed), prof.sizes) {
			if tier == "quick" && ci >= 3 {
				break
			}
			inFile = 1 << 30 // a file of its own
			rotate()
			nb, err := bigCopyScript(rng, c, p, s, tab, tr)
			if err != nil {
				fmt.Printf("DRIVER-FAIL bigcopy %s: %v\n", c.Name, err)
				tr.Emit(Ev{"op": "fail", "err": err.Error()})
				continue
			}
			nTables++
			nBigCopy += 4
			nCopy += 4
			if nb > maxBatches {
				maxBatches = nb
			}
		}
	}
	if tr != nil {
		nEvents += tr.N
		must(tr.Close())
	}
	fmt.Printf("DRIVER-DONE traces=%d events=%d tables=%d configs=%d virtparams=%d copyspans=%d bigcopies=%d maxreadbatches=%d\n",
		nFiles, nEvents, nTables, len(cfgs), nVirt, nCopy, nBigCopy, maxBatches)
}

// bigProfiles: value sizes (by value id) and entry counts of the big tables: a cold run a
// little above one read-size target, one of several targets with a single block above the
// target, many medium blocks, and pairs of blocks that just fit / just do not fit a batch.
var bigProfiles = []struct {
	n     int
	sizes []int
}{
	{12, []int{0, 40000, 9000, 70000, 20000, 300, 30000, 15000}},
	{24, []int{0, 70000, 30000, 9000, 120000, 20000, 45000, 300, 300000}},
	{44, []int{0, 12000, 14000, 11000, 13000, 200}},
	{16, []int{0, 130000, 128000, 131000, 126000, 3000}},
}

// GenBigTable draws n entries with distinct (key, seqnum) and distinct value ids; no spans
// (CopySpan copies the whole file when the table has range deletions, range keys or value blocks).
func GenBigTable(rng *rand.Rand, p, s, n int) *Table {
	r := p * (s + 1)
	if n > 3*r {
		n = 3 * r
	}
	t := &Table{}
	seen := map[[2]int]bool{}
	for len(t.Pts) < n {
		k, sq := rng.IntN(r), 1+rng.IntN(3)
		if seen[[2]int{k, sq}] {
			continue
		}
		seen[[2]int{k, sq}] = true
		t.Pts = append(t.Pts, []int{k, sq, []int{1, 1, 1, 1, 2, 18, 0}[rng.IntN(7)], 0})
	}
	sort.Slice(t.Pts, func(i, j int) bool {
		a, b := t.Pts[i], t.Pts[j]
		if a[0] != b[0] {
			return a[0] < b[0]
		}
		return a[1] > b[1]
	})
	for i, e := range t.Pts {
		if e[2] != 0 {
			e[3] = i + 1
		}
	}
	return t
}

// bigCfgs: uncompressed (the values are highly compressible), no value blocks; the newest
// columnar format, another columnar format, the newest row format (its writer has a
// copyDataBlocks of its own), single-level and two-level indexes.
func bigCfgs(bi, seed int, sizes []int) []WCfg {
	fs := AllFormats()
	newest := fs[len(fs)-1]
	var col []sstable.TableFormat
	for _, f := range fs {
		if f >= sstable.TableFormatPebblev5 && f != newest {
			col = append(col, f)
		}
	}
	var r []WCfg
	add := func(f sstable.TableFormat, bs, ibs int, filter string) {
		c := WCfg{Format: f, BlockSize: bs, IndexSize: ibs, Restart: 16, Compress: "none", Filter: filter, UseFilter: filter != "none",
			NoValBlk: true, Shape: []string{"short", "mixed", "long"}[(bi+seed)%3], ValSizes: sizes}
		c.Name = fmt.Sprintf("big/%s/bs%d/ibs%d/%s", f, bs, ibs, filter)
		r = append(r, c)
	}
	add(newest, 4096, []int{4096, 64}[(bi+seed)%2], "bloom10")
	add(col[(bi+seed)%len(col)], []int{32768, 4096}[bi%2], []int{64, 4096}[(bi+seed)%2], "none")
	add(sstable.TableFormatPebblev4, 4096, 4096, "none")
	for i, f := range col {
		if i != (bi+seed)%len(col) {
			add(f, 4096, []int{4096, 64}[i%2], []string{"none", "fuse8"}[i%2])
		}
	}
	return r
}

// bigCopyScript writes the table, scans it once, and copies the whole span, an interior
// span and a random span with a cold cache, and the whole span with some blocks warm.
// Returns the number of read batches the largest cold run needs (diagnostic).
func bigCopyScript(rng *rand.Rand, cfg WCfg, p, s int, tab *Table, tr *Trace) (int, error) {
	x := &Exec{U: NewUniv(p, s, cfg.Shape), VC: Vals{Sizes: cfg.ValSizes}, Cfg: cfg, T: tr}
	x.reset()
	defer x.CloseAll()
	x.Tab = tab
	data, err := Build(x.U, x.VC, cfg, tab)
	if err != nil {
		return 0, err
	}
	if err := x.OpenBytes(data); err != nil {
		return 0, err
	}
	batches := 0
	if l, err := x.R.Layout(); err == nil && len(l.Data) > 0 {
		last := l.Data[len(l.Data)-1]
		batches = int((last.Offset+last.Length-l.Data[0].Offset)/(256<<10)) + 1
	}
	x.emit(tab.Event(cfg.Name))
	r := x.U.R()
	x.Step(Ev{"op": "open", "h": 1, "t": "pt", "lo": 0, "hi": r})
	for res, i := x.ptOp(1, "first", 0, 0), 0; ; i++ {
		o := "next"
		if i == 0 {
			o = "first"
		}
		x.emit(Ev{"op": "it", "h": 1, "o": o, "k": 0, "f": 0, "res": res})
		if len(res) != 4 || i > len(tab.Pts)+1 {
			break
		}
		res = x.ptOp(1, "next", 0, 0)
	}
	x.Step(Ev{"op": "close", "h": 1})
	var warm []int
	for k := 0; k < r; k++ {
		if rng.IntN(4) == 0 {
			warm = append(warm, k)
		}
	}
	a := 1 + rng.IntN(r/3)
	b := r - 1 - rng.IntN(r/3)
	ra := rng.IntN(r)
	rb := ra + 1 + rng.IntN(r-ra)
	for _, e := range roundTrip([]Ev{
		{"op": "copyspan", "a": 0, "b": r, "warm": []int{}},
		{"op": "copyspan", "a": a, "b": b, "warm": []int{}},
		{"op": "copyspan", "a": ra, "b": rb, "warm": []int{}},
		{"op": "copyspan", "a": 0, "b": r, "warm": warm},
	}) {
		x.Step(e)
	}
	return batches, nil
}
