package sstdrv

import (
	"encoding/json"
	"math/rand/v2"
	"sort"
)

// roundTrip passes a script through JSON so that generated and file scripts
// have the same dynamic types.
func roundTrip(script []Ev) []Ev {
	b, err := json.Marshal(script)
	must(err)
	var raw []map[string]any
	must(json.Unmarshal(b, &raw))
	r := make([]Ev, len(raw))
	for i := range raw {
		r[i] = Ev(raw[i])
	}
	return r
}

// Seeded generation of tables and op scripts.  Op scripts are generated while
// executing under a "leader" configuration: the contract state of every
// iterator (positioned / exhausted forward / backward / prefix exhausted) is
// read off the real results, so the generator holds no model of the table.
// TLC re-checks the caller contract of every step (OOC counter).

var pointKinds = []int{1, 1, 1, 0, 2, 7, 18}

// GenTable draws a table: up to maxN points over P*(S+1) user keys with seqnums
// 1..Q, range-deletion fragments and range-key fragments.
func GenTable(rng *rand.Rand, p, s, q, maxN int, withSpans bool, delsized bool) *Table {
	r := p * (s + 1)
	t := &Table{}
	n := rng.IntN(maxN + 1)
	seen := map[[2]int]bool{}
	// many versions per prefix: concentrate keys on few prefixes half of the time
	hot := rng.IntN(2) == 0
	for i := 0; i < n; i++ {
		k := rng.IntN(r)
		if hot {
			k = (rng.IntN(2))*(s+1) + rng.IntN(s+1)
			if k >= r {
				k = r - 1
			}
		}
		sq := 1 + rng.IntN(q)
		if seen[[2]int{k, sq}] {
			continue
		}
		seen[[2]int{k, sq}] = true
		kd := pointKinds[rng.IntN(len(pointKinds))]
		if delsized && rng.IntN(6) == 0 {
			kd = 23
		}
		t.Pts = append(t.Pts, []int{k, sq, kd, 0})
	}
	sort.Slice(t.Pts, func(i, j int) bool {
		a, b := t.Pts[i], t.Pts[j]
		if a[0] != b[0] {
			return a[0] < b[0]
		}
		return a[1] > b[1]
	})
	id := 1
	for _, e := range t.Pts {
		if e[2] != 0 && e[2] != 7 && rng.IntN(5) != 0 {
			e[3] = id
			id++
		}
	}
	if !withSpans {
		return t
	}
	frags := func(rk bool) []Frag {
		var bs []int
		if rk {
			for x := 0; x <= p; x++ {
				if rng.IntN(2) == 0 {
					bs = append(bs, x*(s+1))
				}
			}
		} else {
			for x := 0; x <= r; x++ {
				if rng.IntN(4) == 0 {
					bs = append(bs, x)
				}
			}
		}
		var fs []Frag
		for i := 0; i+1 < len(bs); i++ {
			if rng.IntN(3) == 0 {
				continue
			}
			f := Frag{A: bs[i], B: bs[i+1]}
			nk := 1 + rng.IntN(3)
			dup := map[[3]int]bool{}
			for j := 0; j < nk; j++ {
				var key []int
				if rk {
					kd := []int{21, 21, 20, 19}[rng.IntN(4)]
					suf, v := rng.IntN(s+1), 0
					if kd == 19 {
						suf = 0
					}
					if kd == 21 {
						v = id
						id++
					}
					key = []int{1 + rng.IntN(q), kd, suf, v}
				} else {
					key = []int{1 + rng.IntN(q), 15, 0, 0}
				}
				d := [3]int{key[0], key[1], key[2]}
				if dup[d] {
					continue
				}
				dup[d] = true
				f.Keys = append(f.Keys, key)
			}
			canonKeys(f.Keys)
			fs = append(fs, f)
		}
		return fs
	}
	t.Rd = frags(false)
	t.Rk = frags(true)
	return t
}

type ptState struct {
	lo, hi     int
	elo, ehi   int // bounds intersected with the virtual table's bounds
	st         string
	pfx        int
	fwd        bool
	sko        string
	sk         int
	curK       int
	nextsSince int
}

// GenPointOps generates n in-contract positioning calls on iterator h,
// executing them on the leader and appending them to the script.
func GenPointOps(rng *rand.Rand, x *Exec, h, lo, hi, n int, script *[]Ev) {
	u := x.U
	s := &ptState{lo: lo, hi: hi, elo: lo, ehi: hi, st: "unpos", pfx: -1, fwd: true, sko: "none"}
	if x.V.On {
		vup := x.V.Vhi
		if x.V.VhiIncl {
			vup++
		}
		if x.V.Vlo > s.elo {
			s.elo = x.V.Vlo
		}
		if vup < s.ehi {
			s.ehi = vup
		}
	}
	for i := 0; i < n; i++ {
		type cand struct {
			o string
			w int
		}
		var cs []cand
		if s.lo == 0 {
			cs = append(cs, cand{"first", 2})
		}
		if s.hi == u.R() {
			cs = append(cs, cand{"last", 2})
		}
		cs = append(cs, cand{"seekge", 4}, cand{"seeklt", 4})
		if s.lo <= u.R()-1 && s.lo <= s.ehi {
			cs = append(cs, cand{"seekprefixge", 3})
		}
		if (s.pfx < 0 && (s.st == "at" || s.st == "before")) || (s.pfx >= 0 && s.st == "at") {
			cs = append(cs, cand{"next", 10})
		}
		if s.pfx < 0 && (s.st == "at" || s.st == "after") {
			cs = append(cs, cand{"prev", 8})
		}
		if s.pfx < 0 && s.st == "at" && s.fwd {
			cs = append(cs, cand{"nextprefix", 4})
		}
		tot := 0
		for _, c := range cs {
			tot += c.w
		}
		pick := rng.IntN(tot)
		o := ""
		for _, c := range cs {
			if pick < c.w {
				o = c.o
				break
			}
			pick -= c.w
		}
		k, f := 0, 0
		switch o {
		case "seekge":
			k = s.lo + rng.IntN(s.ehi-s.lo+1)
		case "seeklt":
			k = s.elo + rng.IntN(s.hi-s.elo+1)
		case "seekprefixge":
			top := s.ehi
			if top > u.R()-1 {
				top = u.R() - 1
			}
			k = s.lo + rng.IntN(top-s.lo+1)
		}
		if (o == "seekge" || o == "seekprefixge") && s.sko == o && k >= s.sk && rng.IntN(2) == 0 {
			// legal only if nothing was done that moved the iterator beyond the key an honest
			// seek would find: exhausted and k beyond the last key seen, or positioned before k
			if (s.st == "after" && k > s.curK) || (s.st == "at" && (k > s.curK || s.nextsSince == 0)) {
				f = 1
			}
		}
		e := Ev{"op": "it", "h": h, "o": o, "k": k, "f": f}
		*script = append(*script, e)
		res := x.ptOp(h, o, k, f)
		x.emit(Ev{"op": "it", "h": h, "o": o, "k": k, "f": f, "res": res})
		// contract state from the real result
		forward := o != "last" && o != "seeklt" && o != "prev"
		switch o {
		case "first", "last", "seekge", "seeklt":
			s.pfx = -1
		case "seekprefixge":
			s.pfx = k / (u.S + 1)
		}
		switch o {
		case "seekge", "seekprefixge":
			s.sko, s.sk, s.nextsSince = o, k, 0
			s.curK = -1
		case "next":
			s.nextsSince++
		default:
			s.sko = "none"
		}
		s.fwd = forward
		if len(res) == 4 && res[0] >= 0 {
			s.curK = res[0]
			s.st = "at"
			if s.pfx >= 0 && res[0]/(u.S+1) != s.pfx {
				s.st = "undef"
			}
		} else if len(res) == 0 {
			if s.pfx >= 0 {
				s.st = "undef"
			} else if o == "nextprefix" {
				s.st = "undef" // Prev is not documented as valid after an exhausted NextPrefix
			} else if forward {
				s.st = "after"
			} else {
				s.st = "before"
			}
		} else {
			s.st = "undef"
		}
		if s.st == "undef" {
			s.sko = "none"
		}
	}
}

// GenFragOps generates n calls on fragment iterator h.
func GenFragOps(rng *rand.Rand, x *Exec, h, n int, script *[]Ev) {
	st := "unpos"
	for i := 0; i < n; i++ {
		ops := []string{"first", "last", "seekge", "seekge", "seeklt", "seeklt"}
		if st == "at" || st == "before" {
			ops = append(ops, "next", "next", "next")
		}
		if st == "at" || st == "after" {
			ops = append(ops, "prev", "prev", "prev")
		}
		o := ops[rng.IntN(len(ops))]
		k := 0
		if o == "seekge" || o == "seeklt" {
			k = rng.IntN(x.U.R() + 1)
		}
		*script = append(*script, Ev{"op": "fit", "h": h, "o": o, "k": k})
		res := x.frOp(h, o, k)
		x.emit(Ev{"op": "fit", "h": h, "o": o, "k": k, "res": res})
		forward := o == "first" || o == "next" || o == "seekge"
		switch {
		case len(res) == 3:
			st = "at"
		case len(res) == 0 && forward:
			st = "after"
		case len(res) == 0:
			st = "before"
		default:
			st = "unpos"
		}
	}
}

func randBounds(rng *rand.Rand, r int) (int, int) {
	switch rng.IntN(4) {
	case 0:
		return 0, r
	case 1:
		return 0, 1 + rng.IntN(r)
	case 2:
		return rng.IntN(r), r
	}
	lo := rng.IntN(r)
	return lo, lo + 1 + rng.IntN(r-lo)
}

// GenScript builds the table under the leader configuration and generates the
// whole script while executing it there (the leader's events are recorded).
func GenScript(rng *rand.Rand, leader WCfg, p, s int, tab *Table, iters, opsPer int, t *Trace) ([]Ev, error) {
	return GenScriptV(rng, leader, p, s, tab, iters, opsPer, t, nil, 0)
}

// GenScriptV is GenScript with an optional virt{} step after the table and
// ncopy CopySpan steps at the end.
func GenScriptV(rng *rand.Rand, leader WCfg, p, s int, tab *Table, iters, opsPer int, t *Trace, virt Ev, ncopy int) ([]Ev, error) {
	x := &Exec{U: NewUniv(p, s, leader.Shape), VC: Vals{Sizes: leader.ValSizes}, Cfg: leader, T: t}
	x.reset()
	defer x.CloseAll()
	x.Tab = tab
	data, err := Build(x.U, x.VC, leader, tab)
	if err != nil {
		return nil, err
	}
	if err := x.OpenBytes(data); err != nil {
		return nil, err
	}
	script := []Ev{tab.Event("")}
	x.emit(tab.Event(leader.Name))
	h := 0
	fragsOK := true
	if virt != nil {
		script = append(script, virt)
		x.Step(virt)
		// keyspan.Truncate requires that no span contains an inclusive end bound
		fragsOK = !virt.B("vhiincl")
	}
	for i := 0; i < iters; i++ {
		h++
		lo, hi := randBounds(rng, x.U.R())
		if virt != nil && virt.B("on") {
			// ConstrainBounds assumes that the caller's bounds overlap the virtual table
			// (a levelIter only opens files that overlap its bounds)
			vlo, vup := virt.I("vlo"), virt.I("vhi")
			if virt.B("vhiincl") {
				vup++
			}
			for try := 0; !(lo < vup && hi > vlo); try++ {
				lo, hi = randBounds(rng, x.U.R())
				if try > 20 {
					lo, hi = 0, x.U.R()
				}
			}
		}
		e := Ev{"op": "open", "h": h, "t": "pt", "lo": lo, "hi": hi}
		script = append(script, e)
		x.Step(e)
		GenPointOps(rng, x, h, lo, hi, opsPer, &script)
		c := Ev{"op": "close", "h": h}
		script = append(script, c)
		x.Step(c)
	}
	for _, typ := range []string{"rd", "rk"} {
		if !fragsOK {
			break
		}
		if (typ == "rd" && len(tab.Rd) == 0 && rng.IntN(3) != 0) || (typ == "rk" && len(tab.Rk) == 0 && rng.IntN(3) != 0) {
			continue
		}
		h++
		e := Ev{"op": "open", "h": h, "t": typ, "lo": 0, "hi": x.U.R()}
		script = append(script, e)
		x.Step(e)
		GenFragOps(rng, x, h, opsPer/2+2, &script)
		c := Ev{"op": "close", "h": h}
		script = append(script, c)
		x.Step(c)
	}
	for i := 0; i < ncopy; i++ {
		a := rng.IntN(x.U.R())
		b := a + 1 + rng.IntN(x.U.R()-a)
		e := Ev{"op": "copyspan", "a": a, "b": b}
		script = append(script, e)
		x.V = VirtP{}
		x.Step(e)
	}
	return roundTrip(script), nil
}
