package sstdrv

import (
	"encoding/json"
	"math/rand/v2"
	"sort"
)

// roundTrip passes a script through JSON so that generated and file scripts
// have the same dynamic types.
func roundTrip(script []Ev) []Ev {
	b, err := json.Marshal(script)
	must(err)
	var raw []map[string]any
	must(json.Unmarshal(b, &raw))
	r := make([]Ev, len(raw))
	for i := range raw {
		r[i] = Ev(raw[i])
	}
	return r
}

// Seeded generation of tables and op scripts.  Op scripts are generated while
// executing under a "leader" configuration: the contract state of every
// iterator (positioned / exhausted forward / backward / prefix exhausted) is
// read off the real results, so the generator holds no model of the table.
// TLC re-checks the caller contract of every step (OOC counter).

var pointKinds = []int{1, 1, 1, 0, 2, 7, 18}

// GenTable draws a table: up to maxN points over P*(S+1) user keys with seqnums
// 1..Q, range-deletion fragments and range-key fragments.
func GenTable(rng *rand.Rand, p, s, q, maxN int, withSpans bool, delsized bool) *Table {
	r := p * (s + 1)
	t := &Table{}
	n := rng.IntN(maxN + 1)
	seen := map[[2]int]bool{}
	// many versions per prefix: concentrate keys on few prefixes half of the time
	hot := rng.IntN(2) == 0
	for i := 0; i < n; i++ {
		k := rng.IntN(r)
		if hot {
			k = (rng.IntN(2))*(s+1) + rng.IntN(s+1)
			if k >= r {
				k = r - 1
			}
		}
		sq := 1 + rng.IntN(q)
		if seen[[2]int{k, sq}] {
			continue
		}
		seen[[2]int{k, sq}] = true
		kd := pointKinds[rng.IntN(len(pointKinds))]
		if delsized && rng.IntN(6) == 0 {
			kd = 23
		}
		t.Pts = append(t.Pts, []int{k, sq, kd, 0})
	}
	sort.Slice(t.Pts, func(i, j int) bool {
		a, b := t.Pts[i], t.Pts[j]
		if a[0] != b[0] {
			return a[0] < b[0]
		}
		return a[1] > b[1]
	})
	id := 1
	for _, e := range t.Pts {
		if e[2] != 0 && e[2] != 7 && rng.IntN(5) != 0 {
			e[3] = id
			id++
		}
	}
	if !withSpans {
		return t
	}
	frags := func(rk bool) []Frag {
		var bs []int
		if rk {
			for x := 0; x <= p; x++ {
				if rng.IntN(2) == 0 {
					bs = append(bs, x*(s+1))
				}
			}
		} else {
			for x := 0; x <= r; x++ {
				if rng.IntN(4) == 0 {
					bs = append(bs, x)
				}
			}
		}
		var fs []Frag
		for i := 0; i+1 < len(bs); i++ {
			if rng.IntN(3) == 0 {
				continue
			}
			f := Frag{A: bs[i], B: bs[i+1]}
			nk := 1 + rng.IntN(3)
			dup := map[[3]int]bool{}
			for j := 0; j < nk; j++ {
				var key []int
				if rk {
					kd := []int{21, 21, 20, 19}[rng.IntN(4)]
					suf, v := rng.IntN(s+1), 0
					if kd == 19 {
						suf = 0
					}
					if kd == 21 {
						v = id
						id++
					}
					key = []int{1 + rng.IntN(q), kd, suf, v}
				} else {
					key = []int{1 + rng.IntN(q), 15, 0, 0}
				}
				d := [3]int{key[0], key[1], key[2]}
				if dup[d] {
					continue
				}
				dup[d] = true
				f.Keys = append(f.Keys, key)
			}
			canonKeys(f.Keys)
			fs = append(fs, f)
		}
		return fs
	}
	t.Rd = frags(false)
	t.Rk = frags(true)
	return t
}

type ptState struct {
	lo, hi     int
	elo, ehi   int // bounds intersected with the virtual table's bounds
	st         string
	pfx        int
	fwd        bool
	sko        string
	sk         int
	curK       int
	nextsSince int
}

// virtRange returns the rank range [vlo, vup) of the virtual table in force ([0, R) if none).
func virtRange(x *Exec) (int, int) {
	if !x.V.On {
		return 0, x.U.R()
	}
	vup := x.V.Vhi
	if x.V.VhiIncl {
		vup++
	}
	return x.V.Vlo, vup
}

// rebind is the contract state of an iterator that was opened with / re-bound to [lo, hi).
func (s *ptState) rebind(x *Exec, lo, hi int) {
	*s = ptState{lo: lo, hi: hi, elo: lo, ehi: hi, st: "unpos", pfx: -1, fwd: true, sko: "none"}
	vlo, vup := virtRange(x)
	if vlo > s.elo {
		s.elo = vlo
	}
	if vup < s.ehi {
		s.ehi = vup
	}
}

// setb re-binds iterator h on the leader and appends the step to the script.
func (s *ptState) setb(x *Exec, h, lo, hi int, script *[]Ev) {
	e := Ev{"op": "setb", "h": h, "lo": lo, "hi": hi}
	*script = append(*script, e)
	x.Step(e)
	s.rebind(x, lo, hi)
}

// nextBounds draws the bounds of a reuse of an iterator bound to [lo, hi): the window moves
// forward (lo' >= hi, mostly lo' = hi: consecutive scans), backward (hi' <= lo) or anywhere.
// ok=false: no bounds overlapping the virtual table were found.
func nextBounds(rng *rand.Rand, x *Exec, lo, hi int) (int, int, bool) {
	r := x.U.R()
	vlo, vup := virtRange(x)
	for try := 0; try < 20; try++ {
		nlo, nhi := 0, r
		switch m := rng.IntN(5); {
		case m <= 1 && hi < r:
			nlo = hi
			if rng.IntN(3) == 0 {
				nlo = hi + rng.IntN(r-hi)
			}
			nhi = nlo + 1 + rng.IntN(r-nlo)
		case m <= 3 && lo > 0:
			nhi = lo
			if rng.IntN(3) == 0 {
				nhi = 1 + rng.IntN(lo)
			}
			nlo = rng.IntN(nhi)
		default:
			nlo, nhi = randBounds(rng, r)
		}
		if nlo < vup && nhi > vlo {
			return nlo, nhi, true
		}
	}
	return 0, 0, false
}

// GenPointOps generates n in-contract positioning calls on iterator h,
// executing them on the leader and appending them to the script.
func GenPointOps(rng *rand.Rand, x *Exec, h, lo, hi, n int, script *[]Ev) {
	u := x.U
	s := &ptState{}
	s.rebind(x, lo, hi)
	for i := 0; i < n; i++ {
		type cand struct {
			o string
			w int
		}
		var cs []cand
		if s.lo == 0 {
			cs = append(cs, cand{"first", 2})
		}
		if s.hi == u.R() {
			cs = append(cs, cand{"last", 2})
		}
		cs = append(cs, cand{"seekge", 4}, cand{"seeklt", 4})
		if s.lo <= u.R()-1 && s.lo <= s.ehi {
			cs = append(cs, cand{"seekprefixge", 3})
		}
		if (s.pfx < 0 && (s.st == "at" || s.st == "before")) || (s.pfx >= 0 && s.st == "at") {
			cs = append(cs, cand{"next", 10})
		}
		if s.pfx < 0 && (s.st == "at" || s.st == "after") {
			cs = append(cs, cand{"prev", 8})
		}
		if s.pfx < 0 && s.st == "at" && s.fwd {
			cs = append(cs, cand{"nextprefix", 4})
		}
		if s.st != "unpos" {
			cs = append(cs, cand{"setb", 3})
		}
		tot := 0
		for _, c := range cs {
			tot += c.w
		}
		pick := rng.IntN(tot)
		o := ""
		for _, c := range cs {
			if pick < c.w {
				o = c.o
				break
			}
			pick -= c.w
		}
		if o == "setb" {
			if nlo, nhi, ok := nextBounds(rng, x, s.lo, s.hi); ok {
				s.setb(x, h, nlo, nhi, script)
			}
			continue
		}
		k, f := 0, 0
		switch o {
		case "seekge":
			k = s.lo + rng.IntN(s.ehi-s.lo+1)
		case "seeklt":
			k = s.elo + rng.IntN(s.hi-s.elo+1)
		case "seekprefixge":
			top := s.ehi
			if top > u.R()-1 {
				top = u.R() - 1
			}
			k = s.lo + rng.IntN(top-s.lo+1)
		}
		if (o == "seekge" || o == "seekprefixge") && s.sko == o && k >= s.sk && rng.IntN(2) == 0 {
			// legal only if nothing was done that moved the iterator beyond the key an honest
			// seek would find: exhausted and k beyond the last key seen, or positioned before k
			if (s.st == "after" && k > s.curK) || (s.st == "at" && (k > s.curK || s.nextsSince == 0)) {
				f = 1
			}
		}
		e := Ev{"op": "it", "h": h, "o": o, "k": k, "f": f}
		*script = append(*script, e)
		res := x.ptOp(h, o, k, f)
		x.emit(Ev{"op": "it", "h": h, "o": o, "k": k, "f": f, "res": res})
		s.observe(u, o, k, res)
	}
}

// observe updates the contract state from the real result of call o(k).
func (s *ptState) observe(u *Univ, o string, k int, res []int) {
	forward := o != "last" && o != "seeklt" && o != "prev"
	switch o {
	case "first", "last", "seekge", "seeklt":
		s.pfx = -1
	case "seekprefixge":
		s.pfx = k / (u.S + 1)
	}
	switch o {
	case "seekge", "seekprefixge":
		s.sko, s.sk, s.nextsSince = o, k, 0
		s.curK = -1
	case "next":
		s.nextsSince++
	default:
		s.sko = "none"
	}
	s.fwd = forward
	if len(res) == 4 && res[0] >= 0 {
		s.curK = res[0]
		s.st = "at"
		if s.pfx >= 0 && res[0]/(u.S+1) != s.pfx {
			s.st = "undef"
		}
	} else if len(res) == 0 {
		if s.pfx >= 0 {
			s.st = "undef"
		} else if o == "nextprefix" {
			s.st = "undef" // Prev is not documented as valid after an exhausted NextPrefix
		} else if forward {
			s.st = "after"
		} else {
			s.st = "before"
		}
	} else {
		s.st = "undef"
	}
	if s.st == "undef" {
		s.sko = "none"
	}
}

// GenSweepOps reuses ONE iterator h over a sequence of windows, the way pebble.Iterator and
// levelIter reuse table iterators: consecutive windows moving forward (SeekGE + Next...),
// moving backward (SeekLT + Prev...), or in random order; scans run to exhaustion or stop
// early (so that the next seek finds the block of the previous position still loaded), and
// some windows get a second seek.  The caller opens h with the first window.
//
// sweepWindows draws the windows: consecutive ranges between random cut points (every rank is
// the last key of some block under some configuration), all overlapping the virtual table.
func sweepWindows(rng *rand.Rand, x *Exec) [][2]int {
	vlo, vup := virtRange(x)
	if vlo < 0 {
		vlo = 0
	}
	if vup > x.U.R() {
		vup = x.U.R()
	}
	if vup-vlo < 1 {
		return nil
	}
	// cut points inside the (virtual) table's range: every window overlaps it
	set := map[int]bool{}
	for i, n := 0, 2+rng.IntN(5); i < n; i++ {
		set[vlo+rng.IntN(vup-vlo+1)] = true
	}
	if rng.IntN(2) == 0 {
		set[0] = true
	}
	if rng.IntN(2) == 0 {
		set[x.U.R()] = true
	}
	var cuts []int
	for c := range set {
		cuts = append(cuts, c)
	}
	sort.Ints(cuts)
	var wins [][2]int
	for i := 0; i+1 < len(cuts); i++ {
		if cuts[i] < vup && cuts[i+1] > vlo {
			wins = append(wins, [2]int{cuts[i], cuts[i+1]})
		}
	}
	switch rng.IntN(5) {
	case 0, 1: // forward
	case 2, 3: // backward
		for i, j := 0, len(wins)-1; i < j; i, j = i+1, j-1 {
			wins[i], wins[j] = wins[j], wins[i]
		}
	default:
		rng.Shuffle(len(wins), func(i, j int) { wins[i], wins[j] = wins[j], wins[i] })
	}
	return wins
}

// GenSweepOps scans the windows on iterator h (opened with wins[0]), re-binding it in between.
func GenSweepOps(rng *rand.Rand, x *Exec, h int, wins [][2]int, script *[]Ev) {
	u := x.U
	s := &ptState{}
	call := func(o string, k int) []int {
		*script = append(*script, Ev{"op": "it", "h": h, "o": o, "k": k, "f": 0})
		res := x.ptOp(h, o, k, 0)
		x.emit(Ev{"op": "it", "h": h, "o": o, "k": k, "f": 0, "res": res})
		s.observe(u, o, k, res)
		return res
	}
	for wi, w := range wins {
		if wi == 0 {
			s.rebind(x, w[0], w[1])
		} else {
			s.setb(x, h, w[0], w[1], script)
		}
		// direction of this window's scan: that of the sweep (towards the next window), sometimes the other
		fwdScan := wi+1 >= len(wins) || wins[wi+1][0] >= w[0]
		if wi+1 >= len(wins) && wi > 0 {
			fwdScan = w[0] >= wins[wi-1][0]
		}
		if rng.IntN(6) == 0 {
			fwdScan = !fwdScan
		}
		for pass := 0; pass < 2; pass++ {
			limit := 1000
			if rng.IntN(5) < 2 {
				limit = rng.IntN(4)
			}
			var res []int
			if fwdScan {
				k := s.lo
				if pass == 1 || rng.IntN(4) == 0 {
					k = s.lo + rng.IntN(s.ehi-s.lo+1)
				}
				if k < s.lo {
					k = s.lo
				}
				res = call("seekge", k)
			} else {
				k := s.hi
				if pass == 1 || rng.IntN(4) == 0 {
					k = s.elo + rng.IntN(s.hi-s.elo+1)
				}
				res = call("seeklt", k)
			}
			for n := 0; len(res) == 4 && res[0] >= 0 && n < limit && n < 64; n++ {
				if fwdScan {
					res = call("next", 0)
				} else {
					res = call("prev", 0)
				}
			}
			if rng.IntN(3) != 0 {
				break
			}
		}
	}
}

// GenFragOps generates n calls on fragment iterator h.
func GenFragOps(rng *rand.Rand, x *Exec, h, n int, script *[]Ev) {
	st := "unpos"
	for i := 0; i < n; i++ {
		ops := []string{"first", "last", "seekge", "seekge", "seeklt", "seeklt"}
		if st == "at" || st == "before" {
			ops = append(ops, "next", "next", "next")
		}
		if st == "at" || st == "after" {
			ops = append(ops, "prev", "prev", "prev")
		}
		o := ops[rng.IntN(len(ops))]
		k := 0
		if o == "seekge" || o == "seeklt" {
			k = rng.IntN(x.U.R() + 1)
		}
		*script = append(*script, Ev{"op": "fit", "h": h, "o": o, "k": k})
		res := x.frOp(h, o, k)
		x.emit(Ev{"op": "fit", "h": h, "o": o, "k": k, "res": res})
		forward := o == "first" || o == "next" || o == "seekge"
		switch {
		case len(res) == 3:
			st = "at"
		case len(res) == 0 && forward:
			st = "after"
		case len(res) == 0:
			st = "before"
		default:
			st = "unpos"
		}
	}
}

func randBounds(rng *rand.Rand, r int) (int, int) {
	switch rng.IntN(4) {
	case 0:
		return 0, r
	case 1:
		return 0, 1 + rng.IntN(r)
	case 2:
		return rng.IntN(r), r
	}
	lo := rng.IntN(r)
	return lo, lo + 1 + rng.IntN(r-lo)
}

// GenScript builds the table under the leader configuration and generates the
// whole script while executing it there (the leader's events are recorded).
func GenScript(rng *rand.Rand, leader WCfg, p, s int, tab *Table, iters, opsPer int, t *Trace) ([]Ev, error) {
	return GenScriptV(rng, leader, p, s, tab, iters, opsPer, t, nil, 0, 2)
}

// GenScriptV is GenScript with an optional virt{} step after the table,
// ncopy CopySpan steps at the end and the number of reused "sweep" iterators.
func GenScriptV(rng *rand.Rand, leader WCfg, p, s int, tab *Table, iters, opsPer int, t *Trace, virt Ev, ncopy, sweeps int) ([]Ev, error) {
	x := &Exec{U: NewUniv(p, s, leader.Shape), VC: Vals{Sizes: leader.ValSizes}, Cfg: leader, T: t}
	x.reset()
	defer x.CloseAll()
	x.Tab = tab
	data, err := Build(x.U, x.VC, leader, tab)
	if err != nil {
		return nil, err
	}
	if err := x.OpenBytes(data); err != nil {
		return nil, err
	}
	script := []Ev{tab.Event("")}
	x.emit(tab.Event(leader.Name))
	h := 0
	fragsOK := true
	if virt != nil {
		script = append(script, virt)
		x.Step(virt)
		// keyspan.Truncate requires that no span contains an inclusive end bound
		fragsOK = !virt.B("vhiincl")
	}
	for i := 0; i < iters; i++ {
		h++
		lo, hi := randBounds(rng, x.U.R())
		if virt != nil && virt.B("on") {
			// ConstrainBounds assumes that the caller's bounds overlap the virtual table
			// (a levelIter only opens files that overlap its bounds)
			vlo, vup := virt.I("vlo"), virt.I("vhi")
			if virt.B("vhiincl") {
				vup++
			}
			for try := 0; !(lo < vup && hi > vlo); try++ {
				lo, hi = randBounds(rng, x.U.R())
				if try > 20 {
					lo, hi = 0, x.U.R()
				}
			}
		}
		e := Ev{"op": "open", "h": h, "t": "pt", "lo": lo, "hi": hi}
		script = append(script, e)
		x.Step(e)
		GenPointOps(rng, x, h, lo, hi, opsPer, &script)
		c := Ev{"op": "close", "h": h}
		script = append(script, c)
		x.Step(c)
	}
	for i := 0; i < sweeps; i++ {
		wins := sweepWindows(rng, x)
		if len(wins) == 0 {
			continue
		}
		h++
		e := Ev{"op": "open", "h": h, "t": "pt", "lo": wins[0][0], "hi": wins[0][1]}
		script = append(script, e)
		x.Step(e)
		GenSweepOps(rng, x, h, wins, &script)
		c := Ev{"op": "close", "h": h}
		script = append(script, c)
		x.Step(c)
	}
	for _, typ := range []string{"rd", "rk"} {
		if !fragsOK {
			break
		}
		if (typ == "rd" && len(tab.Rd) == 0 && rng.IntN(3) != 0) || (typ == "rk" && len(tab.Rk) == 0 && rng.IntN(3) != 0) {
			continue
		}
		h++
		e := Ev{"op": "open", "h": h, "t": typ, "lo": 0, "hi": x.U.R()}
		script = append(script, e)
		x.Step(e)
		GenFragOps(rng, x, h, opsPer/2+2, &script)
		c := Ev{"op": "close", "h": h}
		script = append(script, c)
		x.Step(c)
	}
	for i := 0; i < ncopy; i++ {
		a := rng.IntN(x.U.R())
		b := a + 1 + rng.IntN(x.U.R()-a)
		warm := []int{}
		if rng.IntN(2) == 0 {
			for k := 0; k < x.U.R(); k++ {
				if rng.IntN(3) == 0 {
					warm = append(warm, k)
				}
			}
		}
		e := Ev{"op": "copyspan", "a": a, "b": b, "warm": warm}
		script = append(script, e)
		x.V = VirtP{}
		x.Step(e)
	}
	return roundTrip(script), nil
}
