// Package sstdrv drives the real sstable writers/readers (and CopySpan, virtual
// readers, comparers) from scripts and records NDJSON traces in the vocabulary
// of /verif/spec/InternalIter/InternalIterTrace.tla and /verif/spec/KeyOrder.
// The driver executes and records; TLC decides.
package sstdrv

import (
	"bufio"
	"bytes"
	"encoding/json"
	"fmt"
	"os"
	"strconv"
	"strings"
)

// Univ is the key universe of InternalIter.tla: user-key ranks 0..R-1,
// R = P*(S+1); rank R is a key after every key.  Shape selects the bytes:
//
//	short  "a", "a@3", ...           long   a 40-byte shared prefix before the letter
//	mixed  the letter repeated 1, 8 or 15 times (prefix lengths differ)
type Univ struct {
	P, S  int
	Shape string
	back  map[string]int
}

func NewUniv(p, s int, shape string) *Univ {
	u := &Univ{P: p, S: s, Shape: shape, back: map[string]int{}}
	for k := 0; k <= u.R(); k++ {
		u.back[string(u.Key(k))] = k
	}
	return u
}

func (u *Univ) R() int { return u.P * (u.S + 1) }

const longPrefix = "shared/prefix/shared/prefix/shared/pref/"

func (u *Univ) PrefixBytes(p int) []byte {
	if p >= u.P {
		switch u.Shape {
		case "long":
			return []byte(longPrefix + "~")
		}
		return []byte("~")
	}
	c := byte('a' + p)
	switch u.Shape {
	case "long":
		return append([]byte(longPrefix), c)
	case "mixed":
		return bytes.Repeat([]byte{c}, 1+7*(p%3))
	}
	return []byte{c}
}

// Key returns the user key of a rank.
func (u *Univ) Key(rank int) []byte {
	if rank < 0 {
		panic("negative rank")
	}
	if rank >= u.R() {
		return u.PrefixBytes(u.P)
	}
	p, pos := rank/(u.S+1), rank%(u.S+1)
	k := u.PrefixBytes(p)
	if pos == 0 {
		return k
	}
	return append(k, []byte("@"+strconv.Itoa(u.S+1-pos))...)
}

// Succ returns ImmediateSuccessor(prefix of rank) in testkeys form.
func (u *Univ) Succ(rank int) []byte {
	return append(u.PrefixBytes(rank/(u.S+1)), 0)
}

func (u *Univ) Suffix(s int) []byte {
	if s == 0 {
		return nil
	}
	return []byte("@" + strconv.Itoa(s))
}

func (u *Univ) SuffixNum(b []byte) int {
	if len(b) == 0 {
		return 0
	}
	n, err := strconv.Atoi(string(b[1:]))
	if err != nil || b[0] != '@' {
		return -1
	}
	return n
}

// Rank maps bytes produced by the code under test back to a rank; -1 for bytes
// that are no key of the universe (the trace spec then rejects the step).
func (u *Univ) Rank(k []byte) int {
	if r, ok := u.back[string(k)]; ok {
		return r
	}
	return -1
}

// Vals maps value ids to bytes: id 0 is the empty value; other ids are
// "v<id>" + padding + "." with an id-dependent padding size.
type Vals struct{ Sizes []int }

func (c Vals) Enc(id int) []byte {
	if id == 0 {
		return nil
	}
	pad := 0
	if len(c.Sizes) > 0 {
		pad = c.Sizes[id%len(c.Sizes)]
	}
	var b bytes.Buffer
	b.WriteString("v")
	b.WriteString(strconv.Itoa(id))
	for i := 0; i < pad; i++ {
		b.WriteByte(byte('A' + (id+i*7)%23))
	}
	b.WriteByte('.')
	return b.Bytes()
}

// Dec returns the id of a value, verifying every byte; -1 if the bytes are not
// what was written for any id.
func (c Vals) Dec(v []byte) int {
	if len(v) == 0 {
		return 0
	}
	if v[0] != 'v' {
		return -1
	}
	j := 1
	for j < len(v) && v[j] >= '0' && v[j] <= '9' {
		j++
	}
	id, err := strconv.Atoi(string(v[1:j]))
	if err != nil || id == 0 {
		return -1
	}
	if !bytes.Equal(c.Enc(id), v) {
		return -1
	}
	return id
}

// Ev is one trace event / script command.
type Ev map[string]any

func (e Ev) S(k string) string {
	v, _ := e[k].(string)
	return v
}
func toInt(x any) int {
	switch v := x.(type) {
	case int:
		return v
	case float64:
		return int(v)
	case json.Number:
		n, _ := v.Int64()
		return int(n)
	case bool:
		if v {
			return 1
		}
	}
	return 0
}
func (e Ev) I(k string) int { return toInt(e[k]) }
func (e Ev) B(k string) bool {
	v, _ := e[k].(bool)
	return v
}
func (e Ev) L(k string) []any {
	switch v := e[k].(type) {
	case []any:
		return v
	case [][]int:
		r := make([]any, len(v))
		for i := range v {
			r[i] = v[i]
		}
		return r
	case []int:
		r := make([]any, len(v))
		for i := range v {
			r[i] = v[i]
		}
		return r
	}
	return nil
}

func ints(x any) []int {
	switch v := x.(type) {
	case []int:
		return v
	case []any:
		r := make([]int, len(v))
		for i := range v {
			r[i] = toInt(v[i])
		}
		return r
	}
	return nil
}

// Trace writes NDJSON.
type Trace struct {
	f *os.File
	w *bufio.Writer
	N int
}

func NewTrace(path string) (*Trace, error) {
	f, err := os.Create(path)
	if err != nil {
		return nil, err
	}
	return &Trace{f: f, w: bufio.NewWriterSize(f, 1<<20)}, nil
}

func (t *Trace) Emit(e Ev) {
	b, err := json.Marshal(e)
	if err != nil {
		panic(err)
	}
	t.w.Write(b)
	t.w.WriteByte('\n')
	t.N++
}

func (t *Trace) Close() error {
	if err := t.w.Flush(); err != nil {
		return err
	}
	return t.f.Close()
}

func envInt(name string, def int) int {
	if s := os.Getenv(name); s != "" {
		if n, err := strconv.Atoi(s); err == nil {
			return n
		}
	}
	return def
}

func envStr(name, def string) string {
	if s := os.Getenv(name); s != "" {
		return s
	}
	return def
}

func splitList(s string) []string {
	var r []string
	for _, x := range strings.Split(s, ",") {
		if x = strings.TrimSpace(x); x != "" {
			r = append(r, x)
		}
	}
	return r
}

func must(err error) {
	if err != nil {
		panic(fmt.Sprintf("driver: %v", err))
	}
}
