package sstdrv

import (
	"fmt"
	"io"
	"math/rand/v2"
	"path/filepath"
	"strings"

	"github.com/cockroachdb/pebble"
	"github.com/cockroachdb/pebble/internal/testkeys"
	"github.com/cockroachdb/pebble/sstable/block"
	"github.com/cockroachdb/pebble/vfs"
)

// C27 through a pebble.Iterator: a DB holding one flushed table is closed, one
// byte of the table file is altered, the DB is reopened read-only and the
// retry script (the same seek again after an error, relative steps, SetBounds
// and seek) is run on ONE pebble.Iterator, which keeps the table's sstable
// iterator open across seeks (levelIter).  The trace vocabulary is that of the
// sstable segments: table{} holds the user-level content (one SET per user key;
// sequence numbers are not observable through pebble.Iterator and are logged as
// the constant 1), it{} the positioning calls, corrupt{} the re-run results.

type dbNoLog struct{}

func (dbNoLog) Infof(string, ...interface{})  {}
func (dbNoLog) Errorf(string, ...interface{}) {}
func (dbNoLog) Fatalf(format string, args ...interface{}) {
	panic(fmt.Sprintf("fatal: "+format, args...))
}

func dbOptions(fs vfs.FS, fmv pebble.FormatMajorVersion, blockSize, indexSize int, readOnly bool) *pebble.Options {
	o := &pebble.Options{
		FS:                          fs,
		Comparer:                    testkeys.Comparer,
		FormatMajorVersion:          fmv,
		DisableAutomaticCompactions: true,
		ReadOnly:                    readOnly,
		Logger:                      dbNoLog{},
		// the application handles corruption reports itself (the default terminates the process)
		EventListener: &pebble.EventListener{DataCorruption: func(pebble.DataCorruptionInfo) {}},
	}
	o.EnsureDefaults()
	for i := range o.Levels {
		o.Levels[i].BlockSize = blockSize
		o.Levels[i].IndexBlockSize = indexSize
		o.Levels[i].Compression = func() *block.CompressionProfile { return block.NoCompression }
	}
	return o
}

// dbExec runs it{}/setb{} steps on one pebble.Iterator.
type dbExec struct {
	u    *Univ
	vc   Vals
	db   *pebble.DB
	it   *pebble.Iterator
	keep [][]byte
	dead bool
	Res  []any
}

func (d *dbExec) result(valid bool) []int {
	if !valid {
		if d.it.Error() != nil {
			return resErr
		}
		return []int{}
	}
	v, err := d.it.ValueAndErr()
	if err != nil {
		return resErr
	}
	return []int{d.u.Rank(d.it.Key()), 1, 1, d.vc.Dec(v)}
}

func (d *dbExec) op(o string, k int) (res []int) {
	if d.dead || d.it == nil {
		return resPanic
	}
	defer func() {
		if p := recover(); p != nil {
			d.dead = true
			res = resPanic
		}
	}()
	switch o {
	case "first":
		return d.result(d.it.First())
	case "last":
		return d.result(d.it.Last())
	case "next":
		return d.result(d.it.Next())
	case "prev":
		return d.result(d.it.Prev())
	case "seekge":
		return d.result(d.it.SeekGE(d.u.Key(k)))
	case "seeklt":
		return d.result(d.it.SeekLT(d.u.Key(k)))
	}
	return resPanic
}

func (d *dbExec) setb(lo, hi int) {
	if d.dead || d.it == nil {
		return
	}
	defer func() {
		if p := recover(); p != nil {
			d.dead = true
		}
	}()
	var l, h []byte
	if lo != 0 {
		l = d.u.Key(lo)
	}
	if hi != d.u.R() {
		h = d.u.Key(hi)
	}
	d.keep = append(d.keep, l, h)
	d.it.SetBounds(l, h)
}

func (d *dbExec) close() {
	func() {
		defer func() { recover() }()
		if d.it != nil {
			d.it.Close()
		}
	}()
	func() {
		defer func() { recover() }()
		if d.db != nil {
			d.db.Close()
		}
	}()
}

func (d *dbExec) step(e Ev) {
	switch e.S("op") {
	case "it":
		d.Res = append(d.Res, d.op(e.S("o"), e.I("k")))
	case "setb":
		d.setb(e.I("lo"), e.I("hi"))
	}
}

// dbOpen opens (read-only) a copy of the files with the table file replaced.
func dbOpen(files map[string][]byte, sst string, data []byte, fmv pebble.FormatMajorVersion, bs, ibs int) (d *pebble.DB, err error) {
	defer func() {
		if p := recover(); p != nil {
			err = fmt.Errorf("panic: %v", p)
		}
	}()
	fs := vfs.NewMem()
	must(fs.MkdirAll("db", 0755))
	for name, b := range files {
		if name == sst {
			b = data
		}
		f, err := fs.Create(fs.PathJoin("db", name), vfs.WriteCategoryUnspecified)
		must(err)
		_, err = f.Write(b)
		must(err)
		must(f.Sync())
		must(f.Close())
	}
	return pebble.Open("db", dbOptions(fs, fmv, bs, ibs, true))
}

// dbRetryScript: the retry script in the pebble.Iterator vocabulary (no prefix seeks, no TrySeekUsingNext).
func dbRetryScript(d *dbExec, tr *Trace) []Ev {
	u := d.u
	r := u.R()
	var script []Ev
	it := func(o string, k int) []int {
		script = append(script, Ev{"op": "it", "h": 1, "o": o, "k": k, "f": 0})
		res := d.op(o, k)
		tr.Emit(Ev{"op": "it", "h": 1, "o": o, "k": k, "f": 0, "res": res})
		return res
	}
	setb := func(lo, hi int) {
		script = append(script, Ev{"op": "setb", "h": 1, "lo": lo, "hi": hi})
		d.setb(lo, hi)
		tr.Emit(Ev{"op": "setb", "h": 1, "lo": lo, "hi": hi})
	}
	type call struct {
		o string
		k int
	}
	anchors := []call{{"first", 0}, {"last", 0}, {"seekge", r / 2}}
	tr.Emit(Ev{"op": "open", "h": 1, "t": "pt", "lo": 0, "hi": r})
	for ai, a := range anchors {
		for k := 0; k <= r; k++ {
			for si, o := range []string{"seekge", "seeklt"} {
				if ai == 2 && (k+si)%2 == 1 {
					continue
				}
				it(a.o, a.k)
				res := it(o, k)
				at := len(res) == 4 && res[0] >= 0
				it(o, k)
				if (o == "seekge") == at {
					it("next", 0)
				} else {
					it("prev", 0)
				}
				it(o, k)
				lo, hi := k-1, k+2
				if lo < 0 {
					lo = 0
				}
				if hi > r {
					hi = r
				}
				if (ai+k+si)%3 == 0 {
					lo, hi = 0, r
				}
				setb(lo, hi)
				it(o, k)
				if lo != 0 || hi != r {
					setb(0, r)
				}
			}
		}
	}
	tr.Emit(Ev{"op": "close", "h": 1})
	return roundTrip(script)
}

// c27DB runs nDB DB-level segments; returns (files, events, corruptions, openerr, panics, results after an error).
func c27DB(out string, seed uint64, p, s, nDB, stride, workers int) (nFiles, nEvents, nCorrupt, nOpenErr, nPanic, nAfter int) {
	rng := rand.New(rand.NewPCG(seed, 0xC27DB))
	for di := 0; di < nDB; di++ {
		// row blocks (the newest format version before columnar blocks) and the newest format
		fmv := []pebble.FormatMajorVersion{pebble.FormatNewest, pebble.FormatColumnarBlocks - 1}[di%2]
		bs, ibs := []int{40, 24, 72}[(di/2+int(seed))%3], []int{4096, 16}[(di/2)%2]
		u := NewUniv(p, s, []string{"short", "mixed"}[(di+int(seed))%2])
		vc := Vals{Sizes: []int{0, 2, 9, 30}}
		// content: one SET per drawn user key
		tab := &Table{}
		for k, id := 0, 1; k < u.R(); k++ {
			if rng.IntN(4) != 0 {
				tab.Pts = append(tab.Pts, []int{k, 1, 1, id})
				id++
			}
		}
		fs := vfs.NewMem()
		db, err := pebble.Open("db", dbOptions(fs, fmv, bs, ibs, false))
		must(err)
		for _, e := range tab.Pts {
			must(db.Set(u.Key(e[0]), vc.Enc(e[3]), pebble.NoSync))
		}
		must(db.Flush())
		must(db.Close())
		names, err := fs.List("db")
		must(err)
		files := map[string][]byte{}
		sst := ""
		for _, n := range names {
			f, err := fs.Open(fs.PathJoin("db", n))
			must(err)
			if st, err := f.Stat(); err == nil && st.IsDir() {
				f.Close()
				continue
			}
			b, err := io.ReadAll(f)
			must(err)
			f.Close()
			files[n] = b
			if strings.HasSuffix(n, ".sst") {
				if sst != "" {
					panic("driver: more than one table file")
				}
				sst = n
			}
		}
		if sst == "" {
			panic("driver: no table file")
		}
		data := files[sst]
		tr, err := NewTrace(filepath.Join(out, fmt.Sprintf("c27-%d-db-%d.ndjson", seed, di)))
		must(err)
		nFiles++
		tr.Emit(tab.Event(fmt.Sprintf("db/fmv%d/bs%d/ibs%d/%s", int(fmv), bs, ibs, u.Shape)))
		ldb, err := dbOpen(files, sst, data, fmv, bs, ibs)
		must(err)
		lit, err := ldb.NewIter(nil)
		must(err)
		lead := &dbExec{u: u, vc: vc, db: ldb, it: lit}
		script := dbRetryScript(lead, tr)
		lead.close()
		var cs []corruption
		for off := (int(seed) + di) % stride; off < len(data); off += stride {
			pat := patterns[(off/stride+int(seed))%len(patterns)]
			if string(mutate(data, off, pat, uint((off+int(seed))%8))) != string(data) {
				cs = append(cs, corruption{off, pat})
			}
		}
		evs := make([]Ev, len(cs))
		type cnt struct{ openErr, panics, after int }
		cnts := make([]cnt, len(cs))
		parallelDo(len(cs), workers, func(i int) {
			c := cs[i]
			failed := func(st string) {
				cnts[i].openErr++
				if st == "panic" {
					cnts[i].panics++
				}
				evs[i] = Ev{"op": "corrupt", "off": c.off, "pat": c.pat, "open": st, "res": []any{}}
			}
			cdb, err := dbOpen(files, sst, mutate(data, c.off, c.pat, uint((c.off+int(seed))%8)), fmv, bs, ibs)
			if err != nil {
				if strings.HasPrefix(err.Error(), "panic:") {
					failed("panic")
				} else {
					failed("err")
				}
				return
			}
			y := &dbExec{u: u, vc: vc, db: cdb}
			func() {
				defer func() {
					if p := recover(); p != nil {
						y.dead = true
					}
				}()
				if it, err := cdb.NewIter(nil); err == nil {
					y.it = it
				}
			}()
			if y.it == nil {
				// NewIter refused (or panicked): logged like a failed open
				y.close()
				if y.dead {
					failed("panic")
				} else {
					failed("err")
				}
				return
			}
			for _, e := range script {
				y.step(e)
			}
			if y.dead {
				cnts[i].panics++
			}
			y.close()
			cnts[i].after = afterError(y.Res)
			evs[i] = Ev{"op": "corrupt", "off": c.off, "pat": c.pat, "open": "ok", "res": y.Res}
		})
		for i := range evs {
			tr.Emit(evs[i])
			nCorrupt++
			nOpenErr, nPanic, nAfter = nOpenErr+cnts[i].openErr, nPanic+cnts[i].panics, nAfter+cnts[i].after
		}
		nEvents += tr.N
		must(tr.Close())
	}
	return
}
