package sstdrv

import (
	"fmt"
	"math/rand/v2"
	"path/filepath"
	"runtime/debug"
	"testing"

	"github.com/cockroachdb/pebble/sstable"
)

// fullScript is the deterministic C25 op script used for corruption runs:
// scans in both directions, every seek key, prefix seeks, NextPrefix walks, a
// bounded iterator, and the fragment iterators.  It is executed on the leader
// (the pristine table) so that in-contract relative steps follow real results.
func fullScript(x *Exec, tab *Table) []Ev {
	u := x.U
	var script []Ev
	do := func(e Ev) []int {
		script = append(script, e)
		if e.S("op") == "it" {
			res := x.ptOp(e.I("h"), e.S("o"), e.I("k"), 0)
			x.emit(Ev{"op": "it", "h": e.I("h"), "o": e.S("o"), "k": e.I("k"), "f": 0, "res": res})
			return res
		}
		x.Step(e)
		return nil
	}
	it := func(h int, o string, k int) []int { return do(Ev{"op": "it", "h": h, "o": o, "k": k, "f": 0}) }
	n := len(tab.Pts) + 2
	do(Ev{"op": "open", "h": 1, "t": "pt", "lo": 0, "hi": u.R()})
	for r, i := it(1, "first", 0), 0; len(r) == 4 && i < n; i++ {
		r = it(1, "next", 0)
	}
	for r, i := it(1, "last", 0), 0; len(r) == 4 && i < n; i++ {
		r = it(1, "prev", 0)
	}
	for k := 0; k <= u.R(); k++ {
		if r := it(1, "seekge", k); len(r) == 4 && k%2 == 0 {
			it(1, "next", 0)
		}
		if r := it(1, "seeklt", k); len(r) == 4 && k%2 == 1 {
			it(1, "prev", 0)
		}
	}
	for k := 0; k < u.R(); k++ {
		if r := it(1, "seekprefixge", k); len(r) == 4 && r[0]/(u.S+1) == k/(u.S+1) {
			it(1, "next", 0)
		}
	}
	for r, i := it(1, "first", 0), 0; len(r) == 4 && i < n; i++ {
		r = it(1, "nextprefix", 0)
	}
	do(Ev{"op": "close", "h": 1})
	lo, hi := u.S+1, u.R()-2
	do(Ev{"op": "open", "h": 2, "t": "pt", "lo": lo, "hi": hi})
	for r, i := it(2, "seekge", lo), 0; len(r) == 4 && i < n; i++ {
		r = it(2, "next", 0)
	}
	for r, i := it(2, "seeklt", hi), 0; len(r) == 4 && i < n; i++ {
		r = it(2, "prev", 0)
	}
	do(Ev{"op": "close", "h": 2})
	h := 2
	for _, typ := range []string{"rd", "rk"} {
		h++
		do(Ev{"op": "open", "h": h, "t": typ, "lo": 0, "hi": u.R()})
		fit := func(o string, k int) []any {
			e := Ev{"op": "fit", "h": h, "o": o, "k": k}
			script = append(script, e)
			res := x.frOp(h, o, k)
			x.emit(Ev{"op": "fit", "h": h, "o": o, "k": k, "res": res})
			return res
		}
		for r, i := fit("first", 0), 0; len(r) == 3 && i < 12; i++ {
			r = fit("next", 0)
		}
		for r, i := fit("last", 0), 0; len(r) == 3 && i < 12; i++ {
			r = fit("prev", 0)
		}
		for k := 0; k <= u.R(); k += 2 {
			fit("seekge", k)
			fit("seeklt", k+1)
		}
		do(Ev{"op": "close", "h": h})
	}
	return roundTrip(script)
}

var patterns = []string{"flip", "zero", "ff", "swap"}

func mutate(data []byte, off int, pat string, bit uint) []byte {
	d := append([]byte(nil), data...)
	switch pat {
	case "flip":
		d[off] ^= 1 << bit
	case "zero":
		d[off] = 0
	case "ff":
		d[off] = 0xFF
	case "swap":
		if off+1 < len(d) {
			d[off], d[off+1] = d[off+1], d[off]
		}
	}
	return d
}

// TestC27: for each format a few small tables; every byte offset x 4 corruption
// patterns; reopen; rerun the full C25 script; log every step's result.
func TestC27(t *testing.T) {
	out := envStr("VERIF_OUT", "")
	if out == "" {
		t.Skip("VERIF_OUT not set")
	}
	// unchecked corrupted bytes can send the block decoders' pointer arithmetic
	// off the buffer: make such faults panics (recorded, rejected by the spec)
	// instead of killing the driver
	defer debug.SetPanicOnFault(debug.SetPanicOnFault(true))
	seed := uint64(envInt("VERIF_SEED", 1))
	p, s := envInt("VERIF_P", 3), envInt("VERIF_S", 2)
	nt := envInt("VERIF_TABLES", 1)
	stride := envInt("VERIF_STRIDE", 1)
	var formats []sstable.TableFormat
	for _, f := range AllFormats() {
		for _, w := range splitList(envStr("VERIF_FORMATS", "")) {
			if w == fmt.Sprint(int(f)) {
				formats = append(formats, f)
			}
		}
	}
	if len(formats) == 0 {
		formats = AllFormats()
	}
	rng := rand.New(rand.NewPCG(seed, 0xC27))
	nCorrupt, nOpenErr, nPanic, nSame, nEvents, nFiles, nBytes, nSkipped := 0, 0, 0, 0, 0, 0, 0, 0
	for _, f := range formats {
		for ti := 0; ti < nt; ti++ {
			cfg := WCfg{Format: f, BlockSize: []int{24, 48, 4096}[(ti+int(seed))%3], IndexSize: []int{16, 4096}[(ti+int(seed)/3)%2],
				Restart: []int{2, 16}[ti%2], Compress: []string{"none", "snappy", "zstd"}[(ti+int(seed))%3],
				Filter: "bloom10", UseFilter: true, Shape: "short", ValSizes: []int{0, 2, 9, 30}, NoValBlk: ti%2 == 1}
			cfg.Name = fmt.Sprintf("%s/bs%d/ibs%d/%s", f, cfg.BlockSize, cfg.IndexSize, cfg.Compress)
			tab := GenTable(rng, p, s, 3, 9, f >= sstable.TableFormatPebblev2, f >= sstable.TableFormatPebblev4)
			for len(tab.Pts) < 4 {
				tab = GenTable(rng, p, s, 3, 9, f >= sstable.TableFormatPebblev2, f >= sstable.TableFormatPebblev4)
			}
			if f < sstable.TableFormatPebblev2 {
				tab.Rk = nil
			}
			tr, err := NewTrace(filepath.Join(out, fmt.Sprintf("c27-%d-%02d-%d.ndjson", seed, int(f), ti)))
			must(err)
			nFiles++
			x := &Exec{U: NewUniv(p, s, cfg.Shape), VC: Vals{Sizes: cfg.ValSizes}, Cfg: cfg, T: tr}
			x.reset()
			data, err := Build(x.U, x.VC, cfg, tab)
			must(err)
			must(x.OpenBytes(data))
			x.Tab = tab
			tr.Emit(tab.Event(cfg.Name))
			script := fullScript(x, tab)
			x.CloseAll()
			nBytes += len(data)
			// Formats before Pebblev6 end in the RocksDB-style footer, which carries no
			// checksum (the checked footer is what Pebblev6 added): an altered version
			// field makes the reader decode the blocks as another format.  C27 speaks of
			// "current formats"; the unchecked legacy footer is excluded unless asked for.
			end := len(data)
			if f < sstable.TableFormatPebblev6 && envInt("VERIF_LEGACY_FOOTER", 0) == 0 {
				end -= 53
				nSkipped += 53
			}
			for off := 0; off < end; off += stride {
				for _, pat := range patterns {
					d := mutate(data, off, pat, uint((off+int(seed))%8))
					if string(d) == string(data) {
						nSame++
						continue
					}
					nCorrupt++
					y := &Exec{U: x.U, VC: x.VC, Cfg: cfg, Collect: true}
					y.reset()
					if err := y.OpenBytes(d); err != nil {
						st := "err"
						if len(err.Error()) > 6 && err.Error()[:6] == "panic:" {
							st = "panic"
							nPanic++
						}
						nOpenErr++
						tr.Emit(Ev{"op": "corrupt", "off": off, "pat": pat, "open": st, "res": []any{}})
						continue
					}
					for _, e := range script {
						y.Step(e)
					}
					y.CloseAll()
					nPanic += len(y.Panics)
					tr.Emit(Ev{"op": "corrupt", "off": off, "pat": pat, "open": "ok", "res": y.Res})
				}
			}
			nEvents += tr.N
			must(tr.Close())
		}
	}
	fmt.Printf("DRIVER-DONE traces=%d events=%d corruptions=%d openerr=%d panics=%d unchanged=%d bytes=%d legacyfooterbytes=%d\n",
		nFiles, nEvents, nCorrupt, nOpenErr, nPanic, nSame, nBytes, nSkipped)
}
