package sstdrv

import (
	"fmt"
	"math/rand/v2"
	"path/filepath"
	"runtime/debug"
	"strings"
	"sync"
	"sync/atomic"
	"testing"

	"github.com/cockroachdb/pebble/sstable"
)

// fullScript is the deterministic C25 op script used for corruption runs:
// scans in both directions, every seek key, prefix seeks, NextPrefix walks, a
// bounded iterator, and the fragment iterators.  It is executed on the leader
// (the pristine table) so that in-contract relative steps follow real results.
func fullScript(x *Exec, tab *Table) []Ev {
	u := x.U
	var script []Ev
	do := func(e Ev) []int {
		script = append(script, e)
		if e.S("op") == "it" {
			res := x.ptOp(e.I("h"), e.S("o"), e.I("k"), 0)
			x.emit(Ev{"op": "it", "h": e.I("h"), "o": e.S("o"), "k": e.I("k"), "f": 0, "res": res})
			return res
		}
		x.Step(e)
		return nil
	}
	it := func(h int, o string, k int) []int { return do(Ev{"op": "it", "h": h, "o": o, "k": k, "f": 0}) }
	n := len(tab.Pts) + 2
	do(Ev{"op": "open", "h": 1, "t": "pt", "lo": 0, "hi": u.R()})
	for r, i := it(1, "first", 0), 0; len(r) == 4 && i < n; i++ {
		r = it(1, "next", 0)
	}
	for r, i := it(1, "last", 0), 0; len(r) == 4 && i < n; i++ {
		r = it(1, "prev", 0)
	}
	for k := 0; k <= u.R(); k++ {
		if r := it(1, "seekge", k); len(r) == 4 && k%2 == 0 {
			it(1, "next", 0)
		}
		if r := it(1, "seeklt", k); len(r) == 4 && k%2 == 1 {
			it(1, "prev", 0)
		}
	}
	for k := 0; k < u.R(); k++ {
		if r := it(1, "seekprefixge", k); len(r) == 4 && r[0]/(u.S+1) == k/(u.S+1) {
			it(1, "next", 0)
		}
	}
	for r, i := it(1, "first", 0), 0; len(r) == 4 && i < n; i++ {
		r = it(1, "nextprefix", 0)
	}
	do(Ev{"op": "close", "h": 1})
	lo, hi := u.S+1, u.R()-2
	do(Ev{"op": "open", "h": 2, "t": "pt", "lo": lo, "hi": hi})
	for r, i := it(2, "seekge", lo), 0; len(r) == 4 && i < n; i++ {
		r = it(2, "next", 0)
	}
	for r, i := it(2, "seeklt", hi), 0; len(r) == 4 && i < n; i++ {
		r = it(2, "prev", 0)
	}
	do(Ev{"op": "close", "h": 2})
	h := 2
	for _, typ := range []string{"rd", "rk"} {
		h++
		do(Ev{"op": "open", "h": h, "t": typ, "lo": 0, "hi": u.R()})
		fit := func(o string, k int) []any {
			e := Ev{"op": "fit", "h": h, "o": o, "k": k}
			script = append(script, e)
			res := x.frOp(h, o, k)
			x.emit(Ev{"op": "fit", "h": h, "o": o, "k": k, "res": res})
			return res
		}
		for r, i := fit("first", 0), 0; len(r) == 3 && i < 12; i++ {
			r = fit("next", 0)
		}
		for r, i := fit("last", 0), 0; len(r) == 3 && i < 12; i++ {
			r = fit("prev", 0)
		}
		for k := 0; k <= u.R(); k += 2 {
			fit("seekge", k)
			fit("seeklt", k+1)
		}
		do(Ev{"op": "close", "h": h})
	}
	return roundTrip(script)
}

// retryScript is the "operations continue on the same iterator after an error"
// script (spec/InternalIter/BlockRetry.tla): ONE iterator is used for every
// (anchor, seek) pair, the anchor positioning it in some block (first, last or
// a middle one) and the seek being issued, retried, retried with
// TrySeekUsingNext where the contract allows it, followed by a relative step,
// retried again, and retried once more after the iterator was re-bound with
// SetBounds.  On the pristine table (the leader, which records the expected
// outcome sets) the repetitions are redundant; on a corrupted table whichever
// call first needs the unreadable block reports the error and all the later
// calls of the script are calls made after an error.  Because consecutive
// pairs share the iterator, "seek elsewhere and back" is part of it as well.
func retryScript(x *Exec, tab *Table) []Ev {
	u := x.U
	var script []Ev
	do := func(e Ev) {
		script = append(script, e)
		x.Step(e)
	}
	it := func(o string, k, f int) []int {
		e := Ev{"op": "it", "h": 1, "o": o, "k": k, "f": f}
		script = append(script, e)
		res := x.ptOp(1, o, k, f)
		x.emit(Ev{"op": "it", "h": 1, "o": o, "k": k, "f": f, "res": res})
		return res
	}
	r := u.R()
	type call struct {
		o string
		k int
	}
	anchors := []call{{"first", 0}, {"last", 0}, {"seekge", r / 2}, {"seeklt", r/2 + 1}}
	var seeks []call
	for k := 0; k <= r; k++ {
		seeks = append(seeks, call{"seekge", k}, call{"seeklt", k})
		if k < r {
			seeks = append(seeks, call{"seekprefixge", k})
		}
	}
	do(Ev{"op": "open", "h": 1, "t": "pt", "lo": 0, "hi": r})
	for ai, a := range anchors {
		for si, sk := range seeks {
			if (ai+si)%2 == 1 && ai >= 2 {
				continue // the two middle anchors share the seeks between them
			}
			it(a.o, a.k, 0)
			res := it(sk.o, sk.k, 0)
			at := len(res) == 4 && res[0] >= 0
			inPfx := at && (sk.o != "seekprefixge" || res[0]/(u.S+1) == sk.k/(u.S+1))
			it(sk.o, sk.k, 0) // the same call again
			if sk.o != "seeklt" && inPfx {
				it(sk.o, sk.k, 1) // and with TrySeekUsingNext: nothing moved the iterator since
			}
			// a relative step where the contract has one, then the call again
			switch {
			case sk.o == "seekprefixge" && inPfx, sk.o == "seekge" && at, sk.o == "seeklt" && len(res) == 0:
				it("next", 0, 0)
			case sk.o == "seeklt" && at, sk.o == "seekge" && len(res) == 0:
				it("prev", 0, 0)
			}
			it(sk.o, sk.k, 0)
			// re-bind to a window around the key, call again, widen again
			lo, hi := sk.k-1, sk.k+2
			if lo < 0 {
				lo = 0
			}
			if hi > r {
				hi = r
			}
			if (ai+si)%3 == 0 {
				lo, hi = 0, r
			}
			do(Ev{"op": "setb", "h": 1, "lo": lo, "hi": hi})
			if !(sk.o == "seekprefixge" && sk.k > hi) {
				it(sk.o, sk.k, 0)
			}
			if lo != 0 || hi != r {
				do(Ev{"op": "setb", "h": 1, "lo": 0, "hi": r})
			}
		}
	}
	do(Ev{"op": "close", "h": 1})
	return roundTrip(script)
}

var patterns = []string{"flip", "zero", "ff", "swap"}

func mutate(data []byte, off int, pat string, bit uint) []byte {
	d := append([]byte(nil), data...)
	switch pat {
	case "flip":
		d[off] ^= 1 << bit
	case "zero":
		d[off] = 0
	case "ff":
		d[off] = 0xFF
	case "swap":
		if off+1 < len(d) {
			d[off], d[off+1] = d[off+1], d[off]
		}
	}
	return d
}

// corruption is one altered copy of a table: byte offset and pattern.
type corruption struct {
	off int
	pat string
}

// runCorruptions re-runs script on every altered copy of data (in parallel: every run owns
// its reader and iterators) and returns the corrupt{} events in the order of cs.
func runCorruptions(u *Univ, vc Vals, cfg WCfg, data []byte, script []Ev, cs []corruption, seed int, workers int) (evs []Ev, nOpenErr, nPanic, nAfter int) {
	evs = make([]Ev, len(cs))
	type cnt struct{ openErr, panics, after int }
	cnts := make([]cnt, len(cs))
	parallelDo(len(cs), workers, func(i int) {
		c := cs[i]
		d := mutate(data, c.off, c.pat, uint((c.off+seed)%8))
		y := &Exec{U: u, VC: vc, Cfg: cfg, Collect: true}
		y.reset()
		if err := y.OpenBytes(d); err != nil {
			st := "err"
			if strings.HasPrefix(err.Error(), "panic:") {
				st = "panic"
				cnts[i].panics++
			}
			cnts[i].openErr++
			evs[i] = Ev{"op": "corrupt", "off": c.off, "pat": c.pat, "open": st, "res": []any{}}
			return
		}
		for _, e := range script {
			y.Step(e)
		}
		y.CloseAll()
		cnts[i].panics += len(y.Panics)
		cnts[i].after = afterError(y.Res)
		evs[i] = Ev{"op": "corrupt", "off": c.off, "pat": c.pat, "open": "ok", "res": y.Res}
	})
	for _, c := range cnts {
		nOpenErr, nPanic, nAfter = nOpenErr+c.openErr, nPanic+c.panics, nAfter+c.after
	}
	return
}

// parallelDo runs fn(0..n-1) on a few goroutines.  Unchecked corrupted bytes can send the
// block decoders' pointer arithmetic off the buffer: such faults are made panics (recorded,
// rejected by the spec) instead of killing the driver; the setting is per goroutine.
func parallelDo(n, workers int, fn func(i int)) {
	if workers < 1 {
		workers = 1
	}
	var next atomic.Int64
	var wg sync.WaitGroup
	for w := 0; w < workers; w++ {
		wg.Add(1)
		go func() {
			defer wg.Done()
			debug.SetPanicOnFault(true)
			for {
				i := int(next.Add(1)) - 1
				if i >= n {
					return
				}
				fn(i)
			}
		}()
	}
	wg.Wait()
}

// TestC27: for each format a few small tables; every byte offset x 4 corruption
// patterns; reopen; rerun the full C25 script; log every step's result.  Then, for
// tables with several data blocks, the retry script (calls that continue on the
// same iterator after an error) over a sample of the offsets, at the sstable
// iterators and through a pebble.Iterator.
func TestC27(t *testing.T) {
	out := envStr("VERIF_OUT", "")
	if out == "" {
		t.Skip("VERIF_OUT not set")
	}
	defer debug.SetPanicOnFault(debug.SetPanicOnFault(true))
	seed := uint64(envInt("VERIF_SEED", 1))
	p, s := envInt("VERIF_P", 3), envInt("VERIF_S", 2)
	nt := envInt("VERIF_TABLES", 1)
	stride := envInt("VERIF_STRIDE", 1)
	workers := envInt("VERIF_DRV_WORKERS", 4)
	var formats []sstable.TableFormat
	for _, f := range AllFormats() {
		for _, w := range splitList(envStr("VERIF_FORMATS", "")) {
			if w == fmt.Sprint(int(f)) {
				formats = append(formats, f)
			}
		}
	}
	if len(formats) == 0 {
		formats = AllFormats()
	}
	rng := rand.New(rand.NewPCG(seed, 0xC27))
	nCorrupt, nOpenErr, nPanic, nSame, nEvents, nFiles, nBytes, nSkipped := 0, 0, 0, 0, 0, 0, 0, 0
	nRetry, rstride := envInt("VERIF_RETRY_TABLES", 2), envInt("VERIF_RETRY_STRIDE", 3)
	nRetryRuns, nAfterErr := 0, 0
	// Formats before Pebblev6 end in the RocksDB-style footer, which carries no
	// checksum (the checked footer is what Pebblev6 added): an altered version
	// field makes the reader decode the blocks as another format.  C27 speaks of
	// "current formats"; the unchecked legacy footer is excluded unless asked for.
	endOf := func(f sstable.TableFormat, data []byte) int {
		if f < sstable.TableFormatPebblev6 && envInt("VERIF_LEGACY_FOOTER", 0) == 0 {
			return len(data) - 53
		}
		return len(data)
	}
	run := func(tr *Trace, u *Univ, vc Vals, cfg WCfg, data []byte, script []Ev, cs []corruption) {
		evs, oe, pn, af := runCorruptions(u, vc, cfg, data, script, cs, int(seed), workers)
		for _, e := range evs {
			tr.Emit(e)
		}
		nCorrupt, nOpenErr, nPanic, nAfterErr = nCorrupt+len(cs), nOpenErr+oe, nPanic+pn, nAfterErr+af
	}
	for _, f := range formats {
		for ti := 0; ti < nt; ti++ {
			cfg := WCfg{Format: f, BlockSize: []int{24, 48, 4096}[(ti+int(seed))%3], IndexSize: []int{16, 4096}[(ti+int(seed)/3)%2],
				Restart: []int{2, 16}[ti%2], Compress: []string{"none", "snappy", "zstd"}[(ti+int(seed))%3],
				Filter: "bloom10", UseFilter: true, Shape: "short", ValSizes: []int{0, 2, 9, 30}, NoValBlk: ti%2 == 1}
			cfg.Name = fmt.Sprintf("%s/bs%d/ibs%d/%s", f, cfg.BlockSize, cfg.IndexSize, cfg.Compress)
			tab := GenTable(rng, p, s, 3, 9, f >= sstable.TableFormatPebblev2, f >= sstable.TableFormatPebblev4)
			for len(tab.Pts) < 4 {
				tab = GenTable(rng, p, s, 3, 9, f >= sstable.TableFormatPebblev2, f >= sstable.TableFormatPebblev4)
			}
			if f < sstable.TableFormatPebblev2 {
				tab.Rk = nil
			}
			tr, err := NewTrace(filepath.Join(out, fmt.Sprintf("c27-%d-%02d-%d.ndjson", seed, int(f), ti)))
			must(err)
			nFiles++
			x := &Exec{U: NewUniv(p, s, cfg.Shape), VC: Vals{Sizes: cfg.ValSizes}, Cfg: cfg, T: tr}
			x.reset()
			data, err := Build(x.U, x.VC, cfg, tab)
			must(err)
			must(x.OpenBytes(data))
			x.Tab = tab
			tr.Emit(tab.Event(cfg.Name))
			script := fullScript(x, tab)
			x.CloseAll()
			nBytes += len(data)
			end := endOf(f, data)
			nSkipped += len(data) - end
			var cs []corruption
			for off := 0; off < end; off += stride {
				for _, pat := range patterns {
					if string(mutate(data, off, pat, uint((off+int(seed))%8))) == string(data) {
						nSame++
						continue
					}
					cs = append(cs, corruption{off, pat})
				}
			}
			run(tr, x.U, x.VC, cfg, data, script, cs)
			nEvents += tr.N
			must(tr.Close())
		}
		// operations continuing on the same iterator after an error: tables with several data
		// blocks (single-level and two-level index), the retry script, a sample of the offsets
		for ri := 0; ri < nRetry; ri++ {
			cfg := WCfg{Format: f, BlockSize: []int{40, 24, 72}[(ri/2+int(seed))%3], IndexSize: []int{4096, 16}[ri%2],
				Restart: []int{16, 2}[(ri+int(seed))%2], Compress: []string{"none", "snappy"}[(ri/2)%2],
				Filter: "bloom10", UseFilter: ri%4 < 2, Shape: []string{"short", "mixed"}[(ri/2+int(seed))%2],
				ValSizes: []int{0, 2, 9, 30}, NoValBlk: ri%2 == 0}
			cfg.Name = fmt.Sprintf("retry/%s/bs%d/ibs%d/%s", f, cfg.BlockSize, cfg.IndexSize, cfg.Compress)
			u := NewUniv(p, s, cfg.Shape)
			vc := Vals{Sizes: cfg.ValSizes}
			var tab *Table
			var data []byte
			for try := 0; ; try++ {
				tab = GenTable(rng, p, s, 2, 12, false, false)
				if len(tab.Pts) < 6 {
					continue
				}
				var err error
				data, err = Build(u, vc, cfg, tab)
				must(err)
				if n, err := dataBlocks(data, cfg); err == nil && (n >= 3 || try > 50) {
					break
				}
			}
			tr, err := NewTrace(filepath.Join(out, fmt.Sprintf("c27-%d-%02d-r%d.ndjson", seed, int(f), ri)))
			must(err)
			nFiles++
			x := &Exec{U: u, VC: vc, Cfg: cfg, T: tr}
			x.reset()
			must(x.OpenBytes(data))
			x.Tab = tab
			tr.Emit(tab.Event(cfg.Name))
			script := retryScript(x, tab)
			x.CloseAll()
			nBytes += len(data)
			var cs []corruption
			for off := (int(seed) + ri) % rstride; off < endOf(f, data); off += rstride {
				pat := patterns[(off/rstride+int(seed))%len(patterns)]
				if string(mutate(data, off, pat, uint((off+int(seed))%8))) == string(data) {
					nSame++
					continue
				}
				cs = append(cs, corruption{off, pat})
			}
			nRetryRuns += len(cs)
			run(tr, u, vc, cfg, data, script, cs)
			nEvents += tr.N
			must(tr.Close())
		}
	}
	// the same through a pebble.Iterator over a DB holding the corrupted table
	dbFiles, dbEvents, dbCorrupt, dbOpenErr, dbPanic, dbAfter := c27DB(out, seed, p, s, envInt("VERIF_DB_TABLES", 2), envInt("VERIF_DB_STRIDE", 3), workers)
	nFiles, nEvents, nCorrupt, nOpenErr, nPanic, nAfterErr = nFiles+dbFiles, nEvents+dbEvents, nCorrupt+dbCorrupt, nOpenErr+dbOpenErr, nPanic+dbPanic, nAfterErr+dbAfter
	fmt.Printf("DRIVER-DONE traces=%d events=%d corruptions=%d openerr=%d panics=%d unchanged=%d bytes=%d legacyfooterbytes=%d retryruns=%d dbruns=%d resultsaftererror=%d\n",
		nFiles, nEvents, nCorrupt, nOpenErr, nPanic, nSame, nBytes, nSkipped, nRetryRuns, dbCorrupt, nAfterErr)
}

// dataBlocks returns the number of data blocks of a table (generator side: the retry tables
// are drawn until they have several).
func dataBlocks(data []byte, cfg WCfg) (int, error) {
	r, err := sstable.NewMemReader(data, cfg.ReaderOptions())
	if err != nil {
		return 0, err
	}
	defer r.Close()
	l, err := r.Layout()
	if err != nil {
		return 0, err
	}
	return len(l.Data), nil
}

// afterError counts the results that follow the first error of a run (diagnostic: how many
// calls were made on iterators that had already reported an error).
func afterError(res []any) int {
	for i, r := range res {
		if v, ok := r.([]int); ok && len(v) == 1 && v[0] == -1 {
			return len(res) - i - 1
		}
	}
	return 0
}
