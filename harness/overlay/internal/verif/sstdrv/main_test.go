package sstdrv

import (
	"bufio"
	"encoding/json"
	"fmt"
	"math/rand/v2"
	"os"
	"path/filepath"
	"testing"

	"github.com/cockroachdb/pebble/sstable"
)

func minFormat(t *Table) sstable.TableFormat {
	f := sstable.TableFormatMinSupported
	if len(t.Rk) > 0 && f < sstable.TableFormatPebblev2 {
		f = sstable.TableFormatPebblev2
	}
	for _, p := range t.Pts {
		if p[2] == 23 && f < sstable.TableFormatPebblev4 {
			f = sstable.TableFormatPebblev4
		}
	}
	return f
}

func readScripts(path string) ([][]Ev, error) {
	f, err := os.Open(path)
	if err != nil {
		return nil, err
	}
	defer f.Close()
	var r [][]Ev
	sc := bufio.NewScanner(f)
	sc.Buffer(make([]byte, 1<<20), 1<<26)
	for sc.Scan() {
		var raw []map[string]any
		if err := json.Unmarshal(sc.Bytes(), &raw); err != nil {
			return nil, err
		}
		s := make([]Ev, len(raw))
		for i := range raw {
			s[i] = Ev(raw[i])
		}
		r = append(r, s)
	}
	return r, sc.Err()
}

// TestC25: every script (TLC-generated from VERIF_SCRIPTFILE over the universe
// VERIF_GP x VERIF_GS, and seeded random ones over VERIF_P x VERIF_S) is written
// with the real writer and read with the real iterators under every
// configuration of the tier's matrix.
func TestC25(t *testing.T) {
	out := envStr("VERIF_OUT", "")
	if out == "" {
		t.Skip("VERIF_OUT not set")
	}
	tier := envStr("VERIF_TIER", "quick")
	seed := uint64(envInt("VERIF_SEED", 1))
	cfgs := Matrix(tier)
	nTrace, nEvents, nTables := 0, 0, 0
	fileNo := 0
	var tr *Trace
	inFile := 0
	kind := "g"
	rotate := func() {
		if tr != nil && inFile < 4000 {
			return
		}
		if tr != nil {
			nEvents += tr.N
			must(tr.Close())
		}
		fileNo++
		var err error
		tr, err = NewTrace(filepath.Join(out, fmt.Sprintf("c25%s-%d-%04d.ndjson", kind, seed, fileNo)))
		must(err)
		nTrace++
		inFile = 0
	}
	// mode A proper: TLC-generated scripts
	if sf := envStr("VERIF_SCRIPTFILE", ""); sf != "" {
		scripts, err := readScripts(sf)
		must(err)
		gp, gs := envInt("VERIF_GP", 2), envInt("VERIF_GS", 1)
		for si, s := range scripts {
			tab := TableFromEv(s[0])
			for ci, c := range cfgs {
				if c.Format < minFormat(tab) {
					continue
				}
				if tier != "quick" && (ci+si)%3 != 0 {
					continue // thorough: each script under a rotating third of the large matrix
				}
				rotate()
				if err := RunScript(s, c, gp, gs, tr); err != nil {
					fmt.Printf("DRIVER-FAIL %v\n", err)
					tr.Emit(Ev{"op": "fail", "err": err.Error()})
				}
				inFile += len(s)
				nTables++
			}
		}
	}
	// seeded random tables and scripts over the larger universe
	if tr != nil {
		nEvents += tr.N
		must(tr.Close())
		tr = nil
	}
	kind = "d"
	p, s := envInt("VERIF_P", 4), envInt("VERIF_S", 3)
	nt := envInt("VERIF_TABLES", 20)
	ops := envInt("VERIF_OPS", 25)
	rng := rand.New(rand.NewPCG(seed, 0xC25))
	for i := 0; i < nt; i++ {
		maxN := []int{3, 8, 14, 24}[i%4]
		tab := GenTable(rng, p, s, 4, maxN, i%3 != 0, i%5 == 4)
		var ok []WCfg
		for _, c := range cfgs {
			if c.Format >= minFormat(tab) {
				ok = append(ok, c)
			}
		}
		li := rng.IntN(len(ok))
		rotate()
		script, err := GenScript(rng, ok[li], p, s, tab, 3, ops, tr)
		if err != nil {
			fmt.Printf("DRIVER-FAIL leader %s: %v\n", ok[li].Name, err)
			tr.Emit(Ev{"op": "fail", "err": err.Error()})
			continue
		}
		inFile += len(script)
		nTables++
		for j, c := range ok {
			if j == li || (tier != "quick" && (j+i)%3 != 0) {
				continue
			}
			rotate()
			if err := RunScript(script, c, p, s, tr); err != nil {
				fmt.Printf("DRIVER-FAIL %v\n", err)
				tr.Emit(Ev{"op": "fail", "err": err.Error()})
			}
			inFile += len(script)
			nTables++
		}
	}
	if tr != nil {
		nEvents += tr.N
		must(tr.Close())
	}
	fmt.Printf("DRIVER-DONE traces=%d events=%d tables=%d configs=%d\n", nTrace, nEvents, nTables, len(cfgs))
}
