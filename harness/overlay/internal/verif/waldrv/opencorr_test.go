// Package waldrv: DB-level driver of the "wal" engine (C19 end to end).
// A real DB writes a WAL in the WAL-sync chunk format with seeded sync / no-sync
// commits; a copy of the filesystem is taken, one chunk of the WAL is damaged,
// and the copy is reopened with the real Open.  The driver records the chunk
// headers it finds in the WAL (offsets, lengths, sync offsets), the damage, and
// what Open did.  TLC (OpenCorruptionTrace) decides.
package waldrv

import (
	"bufio"
	"encoding/binary"
	"fmt"
	"io"
	"math/rand/v2"
	"os"
	"path/filepath"
	"strconv"
	"strings"
	"testing"

	"github.com/cockroachdb/errors"
	"github.com/cockroachdb/pebble"
	"github.com/cockroachdb/pebble/vfs"
)

const blockSize = 32768

type chunk struct {
	off, hdr, ln int
	pos, format  string
	lognum       uint32
	so           uint64
}

func parseWAL(b []byte) ([]chunk, error) {
	var cs []chunk
	off := 0
	for off+7 <= len(b) {
		blkEnd := (off/blockSize + 1) * blockSize
		if blkEnd > len(b) {
			blkEnd = len(b)
		}
		if blkEnd-off < 7 || b[off+6] == 0 {
			off = (off/blockSize + 1) * blockSize
			continue
		}
		typ := int(b[off+6])
		var c chunk
		c.off = off
		switch {
		case typ >= 1 && typ <= 4:
			c.hdr, c.format = 7, "legacy"
		case typ >= 5 && typ <= 8:
			c.hdr, c.format = 11, "recyclable"
		case typ >= 9 && typ <= 12:
			c.hdr, c.format = 19, "walsync"
		default:
			return nil, fmt.Errorf("bad chunk type %d at %d", typ, off)
		}
		c.pos = []string{"FULL", "FIRST", "MIDDLE", "LAST"}[(typ-1)%4]
		c.ln = int(binary.LittleEndian.Uint16(b[off+4 : off+6]))
		if c.hdr >= 11 {
			c.lognum = binary.LittleEndian.Uint32(b[off+7 : off+11])
		}
		if c.hdr >= 19 {
			c.so = binary.LittleEndian.Uint64(b[off+11 : off+19])
		}
		if typ == 5 && c.ln == 0 && binary.LittleEndian.Uint32(b[off:off+4]) == 0 {
			c.pos = "EOF"
		}
		cs = append(cs, c)
		off += c.hdr + c.ln
	}
	return cs, nil
}

func mkOpts(fs vfs.FS) *pebble.Options {
	o := &pebble.Options{
		FS:                          fs,
		FormatMajorVersion:          pebble.FormatNewest,
		MemTableSize:                64 << 20,
		DisableAutomaticCompactions: true,
		Logger:                      quietLogger{},
	}
	o.EnsureDefaults()
	return o
}

type quietLogger struct{}

func (quietLogger) Infof(string, ...interface{})  {}
func (quietLogger) Errorf(string, ...interface{}) {}
func (quietLogger) Fatalf(f string, a ...interface{}) {
	panic(fmt.Sprintf(f, a...))
}

func TestVWalOpenCorruption(t *testing.T) {
	out := os.Getenv("VERIF_OUT")
	if out == "" {
		t.Skip("VERIF_OUT not set")
	}
	seed, _ := strconv.ParseUint(os.Getenv("VERIF_SEED"), 10, 64)
	runs, _ := strconv.Atoi(os.Getenv("VERIF_RUNS"))
	if runs == 0 {
		runs = 10
	}
	of, err := os.Create(filepath.Join(out, "opencorr.ndjson"))
	if err != nil {
		t.Fatal(err)
	}
	defer of.Close()
	w := bufio.NewWriter(of)
	defer w.Flush()
	rng := rand.New(rand.NewPCG(seed, 19))
	done := 0
	for r := 0; r < runs; r++ {
		fs := vfs.NewCrashableMem()
		d, err := pebble.Open("db", mkOpts(fs))
		if err != nil {
			t.Fatalf("open: %v", err)
		}
		// the very first WAL of a new store is created before the format version is
		// known; reopen so that the WAL under test is created in the WAL-sync format
		if err := d.Close(); err != nil {
			t.Fatalf("close: %v", err)
		}
		if d, err = pebble.Open("db", mkOpts(fs)); err != nil {
			t.Fatalf("open: %v", err)
		}
		n := 6 + rng.IntN(10)
		for i := 1; i <= n; i++ {
			var sz int
			switch rng.IntN(4) {
			case 0:
				sz = 10 + rng.IntN(100)
			case 1:
				sz = 3000 + rng.IntN(9000)
			case 2:
				sz = 20000 + rng.IntN(20000)
			default:
				sz = 500 + rng.IntN(2000)
			}
			val := make([]byte, sz)
			for j := range val {
				val[j] = byte(1 + (i*7+j*13)%120)
			}
			wo := pebble.NoSync
			if rng.IntN(3) != 0 {
				wo = pebble.Sync
			}
			if err := d.Set([]byte(fmt.Sprintf("k%03d", i)), val, wo); err != nil {
				t.Fatalf("set: %v", err)
			}
		}
		clone := fs.CrashClone(vfs.CrashCloneCfg{UnsyncedDataPercent: 100, RNG: rng})
		if err := d.Close(); err != nil {
			t.Fatalf("close: %v", err)
		}
		// locate the WAL with the records
		names, _ := clone.List("db")
		walName := ""
		var walBytes []byte
		for _, nm := range names {
			if strings.HasSuffix(nm, ".log") {
				f, err := clone.Open(clone.PathJoin("db", nm))
				if err != nil {
					continue
				}
				b, _ := io.ReadAll(f)
				f.Close()
				if len(b) > len(walBytes) {
					walName, walBytes = nm, b
				}
			}
		}
		cs, err := parseWAL(walBytes)
		if err != nil || len(cs) < 3 {
			continue
		}
		// several damages per written WAL, each on a fresh copy
		for rep := 0; rep < 6; rep++ {
			c := cs[rng.IntN(len(cs))]
			if c.pos == "EOF" {
				continue
			}
			var dlo, dhi int
			dkind := "flip"
			switch rng.IntN(4) {
			case 0:
				dlo, dhi, dkind = c.off, c.off+c.hdr+c.ln, "zero"
			case 1:
				p := rng.IntN(c.hdr)
				dlo, dhi = c.off+p, c.off+p+1
			default:
				p := c.hdr + rng.IntN(max(c.ln, 1))
				if p >= c.hdr+c.ln {
					p = c.hdr + c.ln - 1
				}
				dlo, dhi = c.off+p, c.off+p+1
			}
			cp := clone.CrashClone(vfs.CrashCloneCfg{UnsyncedDataPercent: 100, RNG: rng})
			mut := append([]byte(nil), walBytes...)
			for i := dlo; i < dhi; i++ {
				if dkind == "zero" {
					mut[i] = 0
				} else {
					mut[i] ^= 0x80
				}
			}
			f, err := cp.Create(cp.PathJoin("db", walName), vfs.WriteCategoryUnspecified)
			if err != nil {
				t.Fatal(err)
			}
			f.Write(mut)
			f.Sync()
			f.Close()
			cls := "ok"
			var present []string
			d2, err := pebble.Open("db", mkOpts(cp))
			if err != nil {
				if errors.Is(err, pebble.ErrCorruption) {
					cls = "corruption"
				} else {
					cls = "other"
				}
			} else {
				for i := 1; i <= n; i++ {
					_, cl, gerr := d2.Get([]byte(fmt.Sprintf("k%03d", i)))
					if gerr == nil {
						present = append(present, strconv.Itoa(i))
						cl.Close()
					}
				}
				d2.Close()
			}
			var sb strings.Builder
			for i, c := range cs {
				if i > 0 {
					sb.WriteString(",")
				}
				fmt.Fprintf(&sb, `[%d,%d,%d,"%s","%s",%d,%d]`, c.off, c.hdr, c.ln, c.pos, c.format, c.lognum, c.so)
			}
			fmt.Fprintf(w, `{"op":"reopen","n":%d,"new":[%s],"newlen":%d,"lognum":%d,"dlo":%d,"dhi":%d,"dkind":"%s","cls":"%s","present":[%s]}`+"\n",
				n, sb.String(), len(walBytes), cs[0].lognum, dlo, dhi, dkind, cls, strings.Join(present, ","))
			fmt.Fprintf(w, "{\"op\":\"reset\"}\n")
			done++
		}
	}
	fmt.Printf("DRIVER-DONE cases=%d\n", done)
}
