package manifest

// C16 driver of the /verif inputs engine: executes L0 layouts on the real
// newL0Sublevels / addL0Files / PickBaseCompaction / PickIntraL0Compaction and
// records what they did.  The verdict is TLC's (spec/L0Sublevels).

import (
	"bufio"
	"encoding/json"
	"fmt"
	"math/rand"
	"os"
	"sort"
	"strconv"
	"testing"

	"github.com/cockroachdb/pebble/internal/base"
)

type vInputsL0File struct {
	ID int `json:"id"`
	Lo int `json:"lo"`
	Hi int `json:"hi"`
	G  int `json:"g"`
	C  int `json:"c"`
}
type vInputsL0In struct {
	Files []vInputsL0File `json:"files"`
}
type vInputsL0Sub struct {
	ID int `json:"id"`
	Sl int `json:"sl"`
}
type vInputsL0Pick struct {
	Kind string `json:"kind"`
	Md   int    `json:"md"`
	Eu   int    `json:"eu"`
	None bool   `json:"none"`
	Ids  []int  `json:"ids"`
}
type vInputsL0Out struct {
	Sub   []vInputsL0Sub   `json:"sub"`
	Inc   [][]vInputsL0Sub `json:"inc"`
	Picks []vInputsL0Pick  `json:"picks"`
	Err   bool             `json:"err"`
	Msg   string           `json:"msg"`
}

func vInputsEnvInt(name string, def int) int {
	if s := os.Getenv(name); s != "" {
		if v, err := strconv.Atoi(s); err == nil {
			return v
		}
	}
	return def
}

func vInputsKey(k int) []byte { return []byte{byte('a' + k)} }

func vInputsL0Metas(in *vInputsL0In) []*TableMetadata {
	var ms []*TableMetadata
	for _, f := range in.Files {
		lo, hi := base.SeqNum(2*f.G-1), base.SeqNum(2*f.G)
		m := (&TableMetadata{
			TableNum:              base.TableNum(f.ID),
			Size:                  uint64(1000 + 100*f.ID),
			SeqNums:               base.SeqNumRange{Low: lo, High: hi},
			LargestSeqNumAbsolute: hi,
		}).ExtendPointKeyBounds(base.DefaultComparer.Compare,
			base.MakeInternalKey(vInputsKey(f.Lo), hi, base.InternalKeyKindSet),
			base.MakeInternalKey(vInputsKey(f.Hi), lo, base.InternalKeyKindSet))
		m.InitPhysicalBacking()
		if f.C != 0 {
			m.CompactionState = CompactionStateCompacting
			m.IsIntraL0Compacting = f.C == 2
		}
		ms = append(ms, m)
	}
	return ms
}

func vInputsL0Assign(s *l0Sublevels) []vInputsL0Sub {
	out := []vInputsL0Sub{}
	for sl, fs := range s.levelFiles {
		for _, f := range fs {
			out = append(out, vInputsL0Sub{ID: int(f.TableNum), Sl: sl})
		}
	}
	sort.Slice(out, func(i, j int) bool { return out[i].ID < out[j].ID })
	return out
}

const vInputsFlushSplit = 1 << 20

func vInputsL0New(ms []*TableMetadata) (*l0Sublevels, LevelMetadata, error) {
	lm := MakeLevelMetadata(base.DefaultComparer.Compare, 0, ms)
	s, err := newL0Sublevels(&lm, base.DefaultComparer.Compare, base.DefaultComparer.FormatKey, vInputsFlushSplit)
	return s, lm, err
}

// vInputsL0Incremental: the oldest `split` files from scratch, the rest through addL0Files in chunks of `chunk`.
func vInputsL0Incremental(in *vInputsL0In, split, chunk int) ([]vInputsL0Sub, error) {
	ms := vInputsL0Metas(in)
	s, _, err := vInputsL0New(ms[:split])
	if err != nil {
		return nil, err
	}
	for at := split; at < len(ms); {
		end := at + chunk
		if end > len(ms) {
			end = len(ms)
		}
		added := map[base.TableNum]*TableMetadata{}
		for _, m := range ms[at:end] {
			added[m.TableNum] = m
		}
		lm := MakeLevelMetadata(base.DefaultComparer.Compare, 0, ms[:end])
		files, ok := s.canUseAddL0Files(added, &lm)
		if !ok {
			return nil, fmt.Errorf("canUseAddL0Files refused files that are the newest of L0")
		}
		s = s.addL0Files(files, vInputsFlushSplit, &lm)
		at = end
	}
	return vInputsL0Assign(s), nil
}

func vInputsL0Run(in *vInputsL0In) (out vInputsL0Out) {
	out = vInputsL0Out{Sub: []vInputsL0Sub{}, Inc: [][]vInputsL0Sub{}, Picks: []vInputsL0Pick{}}
	defer func() {
		if r := recover(); r != nil {
			out.Err, out.Msg = true, fmt.Sprint("panic: ", r)
		}
	}()
	s, _, err := vInputsL0New(vInputsL0Metas(in))
	if err != nil {
		out.Err, out.Msg = true, err.Error()
		return out
	}
	out.Sub = vInputsL0Assign(s)
	n := len(in.Files)
	for split := 1; split < n; split++ {
		for _, chunk := range []int{1, n} {
			a, err := vInputsL0Incremental(in, split, chunk)
			if err != nil {
				out.Err, out.Msg = true, err.Error()
				return out
			}
			out.Inc = append(out.Inc, a)
		}
	}
	maxG := 0
	for _, f := range in.Files {
		if f.G > maxG {
			maxG = f.G
		}
	}
	ids := func(c *L0CompactionFiles) []int {
		r := []int{}
		if c != nil {
			for _, f := range c.Files {
				r = append(r, int(f.TableNum))
			}
		}
		return r
	}
	for md := 1; md <= 3; md++ {
		s, _, _ := vInputsL0New(vInputsL0Metas(in))
		s.InitCompactingFileInfo(nil)
		c := s.PickBaseCompaction(base.DefaultLogger, md, LevelSlice{}, 6, nil)
		out.Picks = append(out.Picks, vInputsL0Pick{Kind: "base", Md: md, None: c == nil, Ids: ids(c)})
		for g := 1; g <= maxG+1; g++ {
			eu := 2*g - 1 // everything of groups < g is flushed
			s, _, _ := vInputsL0New(vInputsL0Metas(in))
			s.InitCompactingFileInfo(nil)
			c := s.PickIntraL0Compaction(base.SeqNum(eu), md, nil)
			out.Picks = append(out.Picks, vInputsL0Pick{Kind: "intra", Md: md, Eu: eu, None: c == nil, Ids: ids(c)})
		}
	}
	return out
}

func vInputsL0Random(rng *rand.Rand, nkeys, maxFiles int) *vInputsL0In {
	in := &vInputsL0In{Files: []vInputsL0File{}}
	n := 1 + rng.Intn(maxFiles)
	g := 1
	lastHi := -1
	for i := 0; i < n; i++ {
		same := i > 0 && rng.Intn(3) == 0 && lastHi < nkeys-1
		var lo, hi int
		if same {
			lo = lastHi + 1 + rng.Intn(nkeys-lastHi-1)
		} else {
			if i > 0 {
				g++
			}
			lo = rng.Intn(nkeys)
		}
		hi = lo + rng.Intn(nkeys-lo)
		if rng.Intn(3) == 0 {
			hi = lo + rng.Intn(1+(nkeys-lo)/2)
		}
		c := 0
		if rng.Intn(4) == 0 {
			c = 1 + rng.Intn(2)
		}
		in.Files = append(in.Files, vInputsL0File{ID: i + 1, Lo: lo, Hi: hi, G: g, C: c})
		lastHi = hi
	}
	return in
}

// TestVInputsL0: VERIF_CASES (TLC-emitted inputs), VERIF_RANDOM, VERIF_OUT.
func TestVInputsL0(t *testing.T) {
	f, err := os.Create(os.Getenv("VERIF_OUT"))
	if err != nil {
		t.Fatal(err)
	}
	w := bufio.NewWriterSize(f, 1<<20)
	defer func() { w.Flush(); f.Close() }()
	put := func(v any) {
		b, err := json.Marshal(v)
		if err != nil {
			t.Fatal(err)
		}
		w.Write(b)
		w.WriteByte('\n')
	}
	emit := func(in *vInputsL0In, must bool) {
		out := vInputsL0Run(in)
		put(map[string]any{"op": "in", "must": must, "c": in})
		put(map[string]any{"op": "out", "o": out})
	}
	ncases := 0
	if p := os.Getenv("VERIF_CASES"); p != "" {
		cf, err := os.Open(p)
		if err != nil {
			t.Fatal(err)
		}
		sc := bufio.NewScanner(cf)
		sc.Buffer(make([]byte, 1<<20), 1<<26)
		for sc.Scan() {
			if len(sc.Bytes()) == 0 {
				continue
			}
			var in vInputsL0In
			if err := json.Unmarshal(sc.Bytes(), &in); err != nil {
				t.Fatal(err)
			}
			emit(&in, true)
			ncases++
		}
		cf.Close()
	}
	rng := rand.New(rand.NewSource(int64(vInputsEnvInt("VERIF_SEED", 1))))
	nr := vInputsEnvInt("VERIF_RANDOM", 0)
	for i := 0; i < nr; i++ {
		emit(vInputsL0Random(rng, vInputsEnvInt("VERIF_NKEYS", 6), vInputsEnvInt("VERIF_MAXFILES", 6)), false)
	}
	fmt.Printf("DRIVER-DONE cases=%d random=%d\n", ncases, nr)
}
