package manifest

// C23 driver of the /verif ve engine: materialises abstract edit sequences as
// real VersionEdits, runs every edit through Encode/Decode, and applies them to
// real Versions one at a time and through one BulkVersionEdit.  It only executes
// and records; the verdict is TLC's (spec/VersionEdits).

import (
	"bufio"
	"bytes"
	"encoding/json"
	"fmt"
	"math/rand"
	"os"
	"sort"
	"strconv"
	"testing"

	"github.com/cockroachdb/pebble/internal/base"
	"github.com/cockroachdb/pebble/sstable"
)

type vVeTab struct {
	N    int     `json:"n"`
	B    int     `json:"b"`
	Lo   int     `json:"lo"`
	Hi   int     `json:"hi"`
	Sl   int     `json:"sl"`
	Sh   int     `json:"sh"`
	Sz   int     `json:"sz"`
	Ct   int     `json:"ct"`
	Rk   int     `json:"rk"`
	Rkk  int     `json:"rkk"`
	Refs [][]int `json:"refs"`
	Rd   int     `json:"rd"`
	Sp   int     `json:"sp"`
}
type vVeVer struct {
	Lv [][]int `json:"lv"`
	Bl [][]int `json:"bl"`
	Mk [][]int `json:"mk"`
	Bk []int   `json:"bk"`
}
type vVeEdit struct {
	Del  [][]int `json:"del"`
	Add  [][]int `json:"add"`
	Cb   [][]int `json:"cb"`
	Rb   []int   `json:"rb"`
	Nb   [][]int `json:"nb"`
	Db   [][]int `json:"db"`
	Mk   [][]int `json:"mk"`
	Ex   [][]int `json:"ex"`
	Cmp  int     `json:"cmp"`
	Log  int     `json:"log"`
	Prev int     `json:"prev"`
	Nfn  int     `json:"nfn"`
	Lsn  int     `json:"lsn"`
}
type vVeIn struct {
	Tabs []vVeTab  `json:"tabs"`
	V0   vVeVer    `json:"v0"`
	Es   []vVeEdit `json:"es"`
}
type vVeDecAdd struct {
	L    int     `json:"l"`
	N    int     `json:"n"`
	B    int     `json:"b"`
	Plo  int     `json:"plo"`
	Phi  int     `json:"phi"`
	Rlo  int     `json:"rlo"`
	Rhi  int     `json:"rhi"`
	Lo   int     `json:"lo"`
	Hi   int     `json:"hi"`
	Sl   int     `json:"sl"`
	Sh   int     `json:"sh"`
	Sz   int     `json:"sz"`
	Ct   int     `json:"ct"`
	Rkk  int     `json:"rkk"`
	Refs [][]int `json:"refs"`
	Rd   int     `json:"rd"`
	Sp   int     `json:"sp"`
}
type vVeDec struct {
	Del  [][]int     `json:"del"`
	Add  []vVeDecAdd `json:"add"`
	Cb   [][]int     `json:"cb"`
	Rb   []int       `json:"rb"`
	Nb   [][]int     `json:"nb"`
	Db   [][]int     `json:"db"`
	Mk   [][]int     `json:"mk"`
	Ex   [][]int     `json:"ex"`
	Cmp  int         `json:"cmp"`
	Log  int         `json:"log"`
	Prev int         `json:"prev"`
	Nfn  int         `json:"nfn"`
	Lsn  int         `json:"lsn"`
}
type vVeBkop struct {
	A []int `json:"a"`
	R []int `json:"r"`
}
type vVeRes struct {
	Err   bool      `json:"err"`
	Msg   string    `json:"msg"`
	Lv    [][][]int `json:"lv"`
	Bl    [][]int   `json:"bl"`
	Mk    [][]int   `json:"mk"`
	Bkops []vVeBkop `json:"bkops"`
}
type vVeOut struct {
	Err    bool     `json:"err"`
	Msg    string   `json:"msg"`
	Dec    []vVeDec `json:"dec"`
	Seq    vVeRes   `json:"seq"`
	Seqdec vVeRes   `json:"seqdec"`
	Bulk   vVeRes   `json:"bulk"`
	Bulk0  vVeRes   `json:"bulk0"`
}

func vVeEnvInt(name string, def int) int {
	if s := os.Getenv(name); s != "" {
		if v, err := strconv.Atoi(s); err == nil {
			return v
		}
	}
	return def
}

func vVeKey(k int) []byte { return []byte(fmt.Sprintf("k%04d", k)) }
func vVeKeyInt(k []byte) int {
	if len(k) != 5 || k[0] != 'k' {
		return -2
	}
	v, err := strconv.Atoi(string(k[1:]))
	if err != nil {
		return -2
	}
	return v
}

const vVeReadCompactionRate = 32000

var vVeCmp = base.DefaultComparer

// vVeWorld: the per-path object registries (one real object per table / backing / blob file).
type vVeWorld struct {
	cat   map[int]vVeTab
	meta  map[int]*TableMetadata    // current in-memory metadata object of a table number
	back  map[int]*TableBacking     // backing objects by disk file num
	blobs map[[2]int]*PhysicalBlobFile
}

func vVeNewWorld(in *vVeIn) *vVeWorld {
	w := &vVeWorld{cat: map[int]vVeTab{}, meta: map[int]*TableMetadata{}, back: map[int]*TableBacking{}, blobs: map[[2]int]*PhysicalBlobFile{}}
	for _, t := range in.Tabs {
		w.cat[t.N] = t
	}
	return w
}

// vVeMeta builds a fresh, realistic TableMetadata for catalog entry t.
func (w *vVeWorld) vVeMeta(t vVeTab) *TableMetadata {
	m := &TableMetadata{
		TableNum:              base.TableNum(t.N),
		Size:                  uint64(t.Sz),
		CreationTime:          int64(t.Ct),
		SeqNums:               base.SeqNumRange{Low: base.SeqNum(t.Sl), High: base.SeqNum(t.Sh)},
		LargestSeqNumAbsolute: base.SeqNum(t.Sh),
		Virtual:               t.B != 0,
		BlobReferenceDepth:    BlobReferenceDepth(t.Rd),
	}
	for _, r := range t.Refs {
		bvs := uint64(r[1])
		if t.B != 0 {
			bvs = 2 * uint64(r[1])
		}
		m.BlobReferences = append(m.BlobReferences, BlobReference{FileID: base.BlobFileID(r[0]), ValueSize: uint64(r[1]), BackingValueSize: bvs})
	}
	if t.Sp != 0 {
		var p, s []byte
		if t.Sp&1 != 0 {
			p = []byte("k")
		}
		if t.Sp&2 != 0 {
			s = []byte("@7")
		}
		m.SyntheticPrefixAndSuffix = sstable.MakeSyntheticPrefixAndSuffix(p, s)
	}
	if t.Rk != 2 {
		m.ExtendPointKeyBounds(vVeCmp.Compare,
			base.MakeInternalKey(vVeKey(t.Lo), base.SeqNum(t.Sh), base.InternalKeyKindSet),
			base.MakeInternalKey(vVeKey(t.Hi), base.SeqNum(t.Sl), base.InternalKeyKindSet))
	}
	if t.Rk != 0 {
		kinds := AnyRangeKeys
		if t.Rkk == 1 {
			kinds = OnlyRangeKeyUnsetAndDelete
		}
		m.ExtendRangeKeyBounds(vVeCmp.Compare, kinds,
			base.MakeInternalKey(vVeKey(t.Lo), base.SeqNum(t.Sh), base.InternalKeyKindRangeKeyUnset),
			base.MakeExclusiveSentinelKey(base.InternalKeyKindRangeKeyUnset, vVeKey(t.Hi)))
	}
	if t.B == 0 {
		m.InitPhysicalBacking()
	} else {
		b := w.back[t.B]
		if b == nil {
			panic(fmt.Sprintf("driver: virtual table %d without backing object %d", t.N, t.B))
		}
		m.AttachVirtualBacking(b)
	}
	return m
}

func vVeNbMeta(x []int) BlobFileMetadata {
	return BlobFileMetadata{FileID: base.BlobFileID(x[0]), Physical: &PhysicalBlobFile{
		FileNum: base.DiskFileNum(x[1]), Size: uint64(x[2]), ValueSize: uint64(x[3]), CreationTime: uint64(x[4])}}
}

// vVeMaterialise builds the in-memory VersionEdit (as a flush / compaction / excise / ingest would).
func (w *vVeWorld) vVeMaterialise(e *vVeEdit) *VersionEdit {
	ve := &VersionEdit{
		MinUnflushedLogNum: base.DiskFileNum(e.Log),
		ObsoletePrevLogNum: uint64(e.Prev),
		NextFileNum:        uint64(e.Nfn),
		LastSeqNum:         base.SeqNum(e.Lsn),
	}
	if e.Cmp == 1 {
		ve.ComparerName = vVeCmp.Name
	}
	for _, c := range e.Cb {
		b := &TableBacking{DiskFileNum: base.DiskFileNum(c[0]), Size: uint64(c[1])}
		w.back[c[0]] = b
		ve.CreatedBackingTables = append(ve.CreatedBackingTables, b)
	}
	for _, r := range e.Rb {
		ve.RemovedBackingTables = append(ve.RemovedBackingTables, base.DiskFileNum(r))
	}
	moved := map[int]*TableMetadata{}
	for _, d := range e.Del {
		if ve.DeletedTables == nil {
			ve.DeletedTables = map[DeletedTableEntry]*TableMetadata{}
		}
		m := w.meta[d[1]]
		if m == nil {
			panic(fmt.Sprintf("driver: deleting table %d that has no metadata object", d[1]))
		}
		ve.DeletedTables[DeletedTableEntry{Level: d[0], FileNum: base.FileNum(d[1])}] = m
		moved[d[1]] = m
	}
	for _, a := range e.Add {
		m := moved[a[1]] // a move keeps the metadata object
		if m == nil {
			m = w.vVeMeta(w.cat[a[1]])
		}
		w.meta[a[1]] = m
		ve.NewTables = append(ve.NewTables, NewTableEntry{Level: a[0], Meta: m})
	}
	for _, x := range e.Nb {
		bm := vVeNbMeta(x)
		w.blobs[[2]int{x[0], x[1]}] = bm.Physical
		ve.NewBlobFiles = append(ve.NewBlobFiles, bm)
	}
	for _, x := range e.Db {
		if ve.DeletedBlobFiles == nil {
			ve.DeletedBlobFiles = map[DeletedBlobFileEntry]*PhysicalBlobFile{}
		}
		p := w.blobs[[2]int{x[0], x[1]}]
		if p == nil {
			panic(fmt.Sprintf("driver: deleting blob file %v that has no object", x))
		}
		ve.DeletedBlobFiles[DeletedBlobFileEntry{FileID: base.BlobFileID(x[0]), FileNum: base.DiskFileNum(x[1])}] = p
	}
	for _, x := range e.Ex {
		ve.ExciseBoundsRecord = append(ve.ExciseBoundsRecord, ExciseOpEntry{
			Bounds: base.UserKeyBounds{Start: vVeKey(x[0]), End: base.UserKeyBoundary{Key: vVeKey(x[1]), Kind: base.BoundaryKind(x[2])}},
			SeqNum: base.SeqNum(x[3])})
	}
	for _, x := range e.Mk {
		ve.TablesMarkedForCompaction = append(ve.TablesMarkedForCompaction,
			TableMarkedForCompactionEntry{Level: x[0], TableNum: base.TableNum(x[1]), Meta: w.meta[x[1]]})
	}
	return ve
}

// vVeSnapshot: the edit a new MANIFEST starts with (all tables, backings, blob files of v0).
func vVeSnapshot(in *vVeIn) *vVeEdit {
	e := &vVeEdit{Cmp: 1, Log: 3, Nfn: 50, Lsn: 40}
	for _, b := range in.V0.Bk {
		e.Cb = append(e.Cb, []int{b, 4096 + b})
	}
	for l, ns := range in.V0.Lv {
		for _, n := range ns {
			e.Add = append(e.Add, []int{l, n})
		}
	}
	for _, x := range in.V0.Bl {
		e.Nb = append(e.Nb, []int{x[0], x[1], 1000 + x[1], 500 + x[1], 1700000000 + x[1]})
	}
	e.Mk = in.V0.Mk
	return e
}

func vVeEncode(ve *VersionEdit) ([]byte, error) {
	var buf bytes.Buffer
	if err := ve.Encode(&buf); err != nil {
		return nil, err
	}
	return buf.Bytes(), nil
}

func vVeDecode(b []byte) (*VersionEdit, error) {
	ve := &VersionEdit{}
	if err := ve.Decode(bytes.NewReader(b)); err != nil {
		return nil, err
	}
	return ve, nil
}

func vVeSort2(x [][]int) {
	sort.Slice(x, func(i, j int) bool {
		if x[i][0] != x[j][0] {
			return x[i][0] < x[j][0]
		}
		return x[i][1] < x[j][1]
	})
}

// vVeAbstract records the content of a (decoded) VersionEdit.
func vVeAbstract(ve *VersionEdit) vVeDec {
	d := vVeDec{Del: [][]int{}, Add: []vVeDecAdd{}, Cb: [][]int{}, Rb: []int{}, Nb: [][]int{}, Db: [][]int{}, Mk: [][]int{}, Ex: [][]int{},
		Log: int(ve.MinUnflushedLogNum), Prev: int(ve.ObsoletePrevLogNum), Nfn: int(ve.NextFileNum), Lsn: int(ve.LastSeqNum)}
	switch ve.ComparerName {
	case "":
	case vVeCmp.Name:
		d.Cmp = 1
	default:
		d.Cmp = 2
	}
	for k := range ve.DeletedTables {
		d.Del = append(d.Del, []int{k.Level, int(k.FileNum)})
	}
	vVeSort2(d.Del)
	for _, nt := range ve.NewTables {
		m := nt.Meta
		a := vVeDecAdd{L: nt.Level, N: int(m.TableNum), Plo: -1, Phi: -1, Rlo: -1, Rhi: -1,
			Lo: vVeKeyInt(m.Smallest().UserKey), Hi: vVeKeyInt(m.Largest().UserKey),
			Sl: int(m.SeqNums.Low), Sh: int(m.SeqNums.High), Sz: int(m.Size), Ct: int(m.CreationTime),
			Refs: [][]int{}, Rd: int(m.BlobReferenceDepth)}
		if m.LargestSeqNumAbsolute != m.SeqNums.High {
			a.Sh = -int(m.LargestSeqNumAbsolute) - 1000000
		}
		if m.Virtual {
			a.B = int(nt.BackingFileNum)
			if m.TableBacking != nil {
				a.B = int(m.TableBacking.DiskFileNum)
			}
			if a.B == 0 {
				a.B = -1
			}
		} else if m.TableBacking == nil || int(m.TableBacking.DiskFileNum) != int(m.TableNum) || m.TableBacking.Size != m.Size {
			a.B = -1
		}
		if m.HasPointKeys {
			a.Plo, a.Phi = vVeKeyInt(m.PointKeyBounds.Smallest().UserKey), vVeKeyInt(m.PointKeyBounds.Largest().UserKey)
			if int(m.PointKeyBounds.Smallest().SeqNum()) != a.Sh || int(m.PointKeyBounds.Largest().SeqNum()) != a.Sl {
				a.Plo = -3 // bound trailers garbled
			}
		}
		if m.HasRangeKeys {
			a.Rlo, a.Rhi = vVeKeyInt(m.RangeKeyBounds.Smallest().UserKey), vVeKeyInt(m.RangeKeyBounds.Largest().UserKey)
			if m.RangeKeyKinds == OnlyRangeKeyUnsetAndDelete {
				a.Rkk = 1
			}
		}
		for _, r := range m.BlobReferences {
			a.Refs = append(a.Refs, []int{int(r.FileID), int(r.ValueSize)})
		}
		if m.SyntheticPrefixAndSuffix.HasPrefix() {
			a.Sp |= 1
			if string(m.SyntheticPrefixAndSuffix.Prefix()) != "k" {
				a.Sp |= 4
			}
		}
		if m.SyntheticPrefixAndSuffix.HasSuffix() {
			a.Sp |= 2
			if string(m.SyntheticPrefixAndSuffix.Suffix()) != "@7" {
				a.Sp |= 8
			}
		}
		d.Add = append(d.Add, a)
	}
	for _, b := range ve.CreatedBackingTables {
		d.Cb = append(d.Cb, []int{int(b.DiskFileNum), int(b.Size)})
	}
	for _, b := range ve.RemovedBackingTables {
		d.Rb = append(d.Rb, int(b))
	}
	for _, b := range ve.NewBlobFiles {
		d.Nb = append(d.Nb, []int{int(b.FileID), int(b.Physical.FileNum), int(b.Physical.Size), int(b.Physical.ValueSize), int(b.Physical.CreationTime)})
	}
	for k := range ve.DeletedBlobFiles {
		d.Db = append(d.Db, []int{int(k.FileID), int(k.FileNum)})
	}
	vVeSort2(d.Db)
	for _, x := range ve.ExciseBoundsRecord {
		d.Ex = append(d.Ex, []int{vVeKeyInt(x.Bounds.Start), vVeKeyInt(x.Bounds.End.Key), int(x.Bounds.End.Kind), int(x.SeqNum)})
	}
	for _, x := range ve.TablesMarkedForCompaction {
		d.Mk = append(d.Mk, []int{x.Level, int(x.TableNum)})
	}
	return d
}

func vVeEmptyRes() vVeRes {
	return vVeRes{Lv: [][][]int{}, Bl: [][]int{}, Mk: [][]int{}, Bkops: []vVeBkop{}}
}

func vVeBkopOf(bve *BulkVersionEdit) vVeBkop {
	op := vVeBkop{A: []int{}, R: []int{}}
	for n := range bve.AddedFileBacking {
		op.A = append(op.A, int(n))
	}
	sort.Ints(op.A)
	for _, n := range bve.RemovedFileBacking {
		op.R = append(op.R, int(n))
	}
	return op
}

func vVeRecord(v *Version, r *vVeRes) {
	for l := range v.Levels {
		lst := [][]int{}
		for f := range v.Levels[l].All() {
			b := -1
			if f.TableBacking != nil {
				b = int(f.TableBacking.DiskFileNum)
			}
			lst = append(lst, []int{int(f.TableNum), b})
		}
		r.Lv = append(r.Lv, lst)
	}
	for bm := range v.BlobFiles.All() {
		r.Bl = append(r.Bl, []int{int(bm.FileID), int(bm.Physical.FileNum)})
	}
	for m, l := range v.MarkedForCompaction.Ascending() {
		r.Mk = append(r.Mk, []int{l, int(m.TableNum)})
	}
}

func vVeGuard(r *vVeRes, f func() error) {
	defer func() {
		if p := recover(); p != nil {
			r.Err, r.Msg = true, fmt.Sprint("panic: ", p)
		}
	}()
	if err := f(); err != nil {
		r.Err, r.Msg = true, err.Error()
	}
}

// vVeAttachKnown gives virtual tables of a decoded edit their backing when it was created by an earlier
// edit (a fresh BulkVersionEdit only knows the backings created by the edits it accumulated).
func vVeAttachKnown(ve *VersionEdit, known map[base.DiskFileNum]*TableBacking) {
	created := map[base.DiskFileNum]bool{}
	for _, b := range ve.CreatedBackingTables {
		created[b.DiskFileNum] = true
	}
	for _, nt := range ve.NewTables {
		if nt.Meta.Virtual && nt.Meta.TableBacking == nil && !created[nt.BackingFileNum] {
			if b := known[nt.BackingFileNum]; b != nil {
				nt.Meta.AttachVirtualBacking(b)
			}
		}
	}
}

// vVeSeqMem: in-memory edits, one BulkVersionEdit per edit (the live DB path).
func vVeSeqMem(in *vVeIn) (r vVeRes) {
	r = vVeEmptyRes()
	vVeGuard(&r, func() error {
		w := vVeNewWorld(in)
		v := NewInitialVersion(vVeCmp)
		apply := func(e *vVeEdit, rec bool) error {
			var bve BulkVersionEdit
			if err := bve.Accumulate(w.vVeMaterialise(e)); err != nil {
				return err
			}
			nv, err := bve.Apply(v, vVeReadCompactionRate)
			if err != nil {
				return err
			}
			v = nv
			if rec {
				r.Bkops = append(r.Bkops, vVeBkopOf(&bve))
			}
			return nil
		}
		if err := apply(vVeSnapshot(in), false); err != nil {
			return fmt.Errorf("base: %w", err)
		}
		for i := range in.Es {
			if err := apply(&in.Es[i], true); err != nil {
				return fmt.Errorf("edit %d: %w", i+1, err)
			}
		}
		vVeRecord(v, &r)
		return nil
	})
	return r
}

// vVeDecoded: decoded edits. mode 0: one BulkVersionEdit per edit; 1: base from the snapshot, then all edits
// in one BulkVersionEdit; 2: snapshot and all edits in one BulkVersionEdit applied to the empty version.
func vVeDecoded(in *vVeIn, snap []byte, enc [][]byte, mode int) (r vVeRes) {
	r = vVeEmptyRes()
	vVeGuard(&r, func() error {
		all := map[base.FileNum]*TableMetadata{}
		known := map[base.DiskFileNum]*TableBacking{}
		v := NewInitialVersion(vVeCmp)
		bve := BulkVersionEdit{AllAddedTables: all}
		acc := func(b []byte, attach bool) error {
			ve, err := vVeDecode(b)
			if err != nil {
				return err
			}
			if attach {
				vVeAttachKnown(ve, known)
			}
			if err := bve.Accumulate(ve); err != nil {
				return err
			}
			for _, fb := range ve.CreatedBackingTables {
				known[fb.DiskFileNum] = fb
			}
			return nil
		}
		flush := func(rec bool) error {
			nv, err := bve.Apply(v, vVeReadCompactionRate)
			if err != nil {
				return err
			}
			v = nv
			if rec {
				r.Bkops = append(r.Bkops, vVeBkopOf(&bve))
			}
			bve = BulkVersionEdit{AllAddedTables: all}
			return nil
		}
		if err := acc(snap, false); err != nil {
			return fmt.Errorf("base: %w", err)
		}
		if mode != 2 {
			if err := flush(false); err != nil {
				return fmt.Errorf("base: %w", err)
			}
		}
		for i, b := range enc {
			if err := acc(b, mode != 2); err != nil {
				return fmt.Errorf("edit %d: %w", i+1, err)
			}
			if mode == 0 {
				if err := flush(true); err != nil {
					return fmt.Errorf("edit %d: %w", i+1, err)
				}
			}
		}
		if mode != 0 {
			if err := flush(true); err != nil {
				return err
			}
		}
		vVeRecord(v, &r)
		return nil
	})
	return r
}

func vVeRun(in *vVeIn) (out vVeOut) {
	out = vVeOut{Dec: []vVeDec{}, Seq: vVeEmptyRes(), Seqdec: vVeEmptyRes(), Bulk: vVeEmptyRes(), Bulk0: vVeEmptyRes()}
	defer func() {
		if r := recover(); r != nil {
			out.Err, out.Msg = true, fmt.Sprint("panic: ", r)
		}
	}()
	// the MANIFEST path: every edit (and the snapshot of v0) is encoded from its in-memory form and decoded
	w := vVeNewWorld(in)
	snap, err := vVeEncode(w.vVeMaterialise(vVeSnapshot(in)))
	if err != nil {
		out.Err, out.Msg = true, "encode base: "+err.Error()
		return out
	}
	var enc [][]byte
	for i := range in.Es {
		b, err := vVeEncode(w.vVeMaterialise(&in.Es[i]))
		if err != nil {
			out.Err, out.Msg = true, fmt.Sprintf("encode edit %d: %v", i+1, err)
			return out
		}
		d, err := vVeDecode(b)
		if err != nil {
			out.Err, out.Msg = true, fmt.Sprintf("decode edit %d: %v", i+1, err)
			return out
		}
		out.Dec = append(out.Dec, vVeAbstract(d))
		enc = append(enc, b)
	}
	out.Seq = vVeSeqMem(in)
	out.Seqdec = vVeDecoded(in, snap, enc, 0)
	out.Bulk = vVeDecoded(in, snap, enc, 1)
	out.Bulk0 = vVeDecoded(in, snap, enc, 2)
	return out
}

// ---- seeded random inputs (TLC decides admissibility) ----
func vVeNorm(in *vVeIn) {
	if in.Tabs == nil {
		in.Tabs = []vVeTab{}
	}
	for i := range in.Tabs {
		if in.Tabs[i].Refs == nil {
			in.Tabs[i].Refs = [][]int{}
		}
	}
	v := &in.V0
	for len(v.Lv) < NumLevels {
		v.Lv = append(v.Lv, []int{})
	}
	for i := range v.Lv {
		if v.Lv[i] == nil {
			v.Lv[i] = []int{}
		}
	}
	if v.Bl == nil {
		v.Bl = [][]int{}
	}
	if v.Mk == nil {
		v.Mk = [][]int{}
	}
	if v.Bk == nil {
		v.Bk = []int{}
	}
	if in.Es == nil {
		in.Es = []vVeEdit{}
	}
	for i := range in.Es {
		e := &in.Es[i]
		for _, p := range []*[][]int{&e.Del, &e.Add, &e.Cb, &e.Nb, &e.Db, &e.Mk, &e.Ex} {
			if *p == nil {
				*p = [][]int{}
			}
		}
		if e.Rb == nil {
			e.Rb = []int{}
		}
	}
}

type vVeSim struct {
	cat    map[int]vVeTab
	lvl    map[int]int // table -> level
	base   map[[2]int]bool
	delB   map[[2]int]bool // base (level, table) deleted during the sequence
	bk     map[int]bool
	bkEver map[int]bool
	bl     map[int]int // blob id -> phys
	mk     map[[2]int]bool
	nextPh int
}

func (s *vVeSim) canPlace(n, l int, skip map[int]bool) bool {
	t := s.cat[n]
	if s.delB[[2]int{l, n}] { // a base table deleted from a level never returns to it
		return false
	}
	for m, ml := range s.lvl {
		if m == n || skip[m] {
			continue
		}
		o := s.cat[m]
		if ml == l && l > 0 && !(t.Hi < o.Lo || o.Hi < t.Lo) {
			return false
		}
		if (t.B != 0 && t.B == m) || (o.B != 0 && o.B == n) { // physical table next to its own virtualization
			return false
		}
	}
	for _, r := range t.Refs {
		if _, ok := s.bl[r[0]]; !ok {
			return false
		}
	}
	return true
}

func vVeRandom(rng *rand.Rand, ntabs, maxEdits int) *vVeIn {
	in := &vVeIn{}
	levels := []int{0, 0, 3, 5, 6, 6}
	nblob := rng.Intn(4)
	// catalog
	nphys := 2 + rng.Intn(ntabs-1)
	for i := 1; i <= nphys; i++ {
		lo := rng.Intn(90)
		hi := lo + rng.Intn(12)
		sl := 10 * i
		t := vVeTab{N: i, Lo: lo, Hi: hi, Sl: sl, Sh: sl + rng.Intn(8), Sz: 500 + rng.Intn(100000), Rk: 0, Refs: [][]int{}}
		if rng.Intn(2) == 0 {
			t.Ct = 1600000000 + rng.Intn(1000000)
		}
		if rng.Intn(3) == 0 {
			t.Rk = 1 + rng.Intn(2)
			t.Rkk = rng.Intn(2)
			// a range-key table without any custom field does not survive Encode/Decode (finding, see spec): rare, inadmissible
			if hi == lo {
				t.Hi++
			}
			if t.Rkk == 0 && t.Ct == 0 && rng.Intn(30) != 0 {
				t.Ct = 1600000000 + rng.Intn(1000000)
			}
		}
		if nblob > 0 && rng.Intn(3) == 0 {
			for id := 1; id <= nblob; id++ {
				if rng.Intn(2) == 0 {
					t.Refs = append(t.Refs, []int{id, 10 + rng.Intn(400)})
				}
			}
			t.Rd = len(t.Refs)
		}
		in.Tabs = append(in.Tabs, t)
	}
	nv := 20
	for i := 0; i < ntabs-nphys+1 && rng.Intn(4) != 0; i++ { // virtual tables: pieces of a physical table or of a foreign backing
		p := in.Tabs[rng.Intn(nphys)]
		b := p.N
		if rng.Intn(4) == 0 {
			b = 90 + rng.Intn(2)
		}
		npieces := 1 + rng.Intn(2)
		cut := p.Lo + rng.Intn(p.Hi-p.Lo+1)
		for k := 0; k < npieces; k++ {
			nv++
			t := vVeTab{N: nv, B: b, Lo: p.Lo, Hi: cut, Sl: p.Sl, Sh: p.Sh, Sz: 1 + p.Sz/2, Ct: p.Ct, Rk: p.Rk, Rkk: p.Rkk, Refs: p.Refs, Rd: p.Rd, Sp: rng.Intn(4)}
			if k == 1 {
				if cut == p.Hi {
					break
				}
				t.Lo, t.Hi = cut+1, p.Hi
			}
			if t.Rk != 0 && t.Lo == t.Hi {
				t.Rk, t.Rkk = 0, 0
			}
			if rng.Intn(2) == 0 { // L0 needs distinct largest seqnums
				t.Sh = p.Sh + k + 1
				if t.Sh >= p.Sl+10 {
					t.Sh = p.Sh
				}
			}
			in.Tabs = append(in.Tabs, t)
		}
	}
	s := &vVeSim{cat: map[int]vVeTab{}, lvl: map[int]int{}, base: map[[2]int]bool{}, delB: map[[2]int]bool{}, bk: map[int]bool{}, bkEver: map[int]bool{},
		bl: map[int]int{}, mk: map[[2]int]bool{}, nextPh: 1000}
	for _, t := range in.Tabs {
		s.cat[t.N] = t
	}
	for id := 1; id <= nblob; id++ {
		if rng.Intn(3) != 0 {
			s.bl[id] = 100 * id
			in.V0.Bl = append(in.V0.Bl, []int{id, 100 * id})
		}
	}
	in.V0.Lv = make([][]int, NumLevels)
	for _, t := range in.Tabs {
		if rng.Intn(2) == 0 {
			continue
		}
		l := levels[rng.Intn(len(levels))]
		if !s.canPlace(t.N, l, nil) {
			continue
		}
		s.lvl[t.N] = l
		s.base[[2]int{l, t.N}] = true
		in.V0.Lv[l] = append(in.V0.Lv[l], t.N)
		if t.B != 0 && !s.bk[t.B] {
			s.bk[t.B], s.bkEver[t.B] = true, true
			in.V0.Bk = append(in.V0.Bk, t.B)
		}
		if rng.Intn(6) == 0 {
			s.mk[[2]int{l, t.N}] = true
			in.V0.Mk = append(in.V0.Mk, []int{l, t.N})
		}
	}
	sort.Ints(in.V0.Bk)
	vVeSort2(in.V0.Mk)
	ne := 1 + rng.Intn(maxEdits)
	for k := 0; k < ne; k++ {
		e := vVeEdit{}
		if k == 0 && rng.Intn(2) == 0 {
			e.Cmp = 1
		}
		if rng.Intn(2) == 0 {
			e.Log = 1 + rng.Intn(1000)
		}
		if rng.Intn(8) == 0 {
			e.Prev = 1 + rng.Intn(100)
		}
		if rng.Intn(3) != 0 {
			e.Nfn = 1 + rng.Intn(100000)
		}
		if rng.Intn(3) != 0 {
			e.Lsn = 1 + rng.Intn(1<<30)
		}
		// blob files first (tables added by this edit may reference new ones)
		for id := 1; id <= nblob; id++ {
			ph, ok := s.bl[id]
			switch {
			case !ok && rng.Intn(3) == 0: // new
				s.nextPh++
				s.bl[id] = s.nextPh
				e.Nb = append(e.Nb, []int{id, s.nextPh, 2000 + rng.Intn(5000), 1000 + rng.Intn(1000), 1600000000 + rng.Intn(1000)})
			case ok && rng.Intn(5) == 0: // replaced by a new physical file
				s.nextPh++
				s.bl[id] = s.nextPh
				e.Db = append(e.Db, []int{id, ph})
				e.Nb = append(e.Nb, []int{id, s.nextPh, 2000 + rng.Intn(5000), 1000 + rng.Intn(1000), 1600000000 + rng.Intn(1000)})
			}
		}
		touched := map[int]bool{}
		nops := rng.Intn(4)
		for o := 0; o < nops; o++ {
			t := in.Tabs[rng.Intn(len(in.Tabs))]
			if touched[t.N] {
				continue
			}
			l, present := s.lvl[t.N]
			switch {
			case present && t.B == 0 && rng.Intn(3) == 0:
				// excise-style replacement of a physical table by the virtual tables sharing its backing
				var pieces []vVeTab
				for _, c := range in.Tabs {
					if c.B == t.N && !touched[c.N] {
						if _, p := s.lvl[c.N]; !p && !s.delB[[2]int{l, c.N}] {
							pieces = append(pieces, c)
						}
					}
				}
				if len(pieces) == 0 || s.bkEver[t.N] {
					continue
				}
				ok := true
				for _, c := range pieces {
					ok = ok && s.canPlace(c.N, l, map[int]bool{t.N: true})
				}
				if !ok {
					continue
				}
				touched[t.N] = true
				e.Del = append(e.Del, []int{l, t.N})
				delete(s.lvl, t.N)
				delete(s.mk, [2]int{l, t.N})
				if s.base[[2]int{l, t.N}] {
					s.delB[[2]int{l, t.N}] = true
				}
				s.bk[t.N], s.bkEver[t.N] = true, true
				e.Cb = append(e.Cb, []int{t.N, t.Sz})
				for _, c := range pieces {
					touched[c.N] = true
					s.lvl[c.N] = l
					e.Add = append(e.Add, []int{l, c.N})
				}
				if len(e.Ex) == 0 {
					e.Ex = append(e.Ex, []int{t.Lo, t.Hi, rng.Intn(2), t.Sh + 1})
				}
			case present:
				touched[t.N] = true
				e.Del = append(e.Del, []int{l, t.N})
				delete(s.lvl, t.N)
				delete(s.mk, [2]int{l, t.N})
				if s.base[[2]int{l, t.N}] {
					s.delB[[2]int{l, t.N}] = true
				}
				if rng.Intn(2) == 0 { // move
					nl := levels[rng.Intn(len(levels))]
					if nl != l && s.canPlace(t.N, nl, nil) {
						s.lvl[t.N] = nl
						e.Add = append(e.Add, []int{nl, t.N})
					}
				}
			default:
				nl := levels[rng.Intn(len(levels))]
				if !s.canPlace(t.N, nl, nil) {
					continue
				}
				if t.B != 0 && !s.bk[t.B] {
					if s.bkEver[t.B] {
						continue
					}
					s.bk[t.B], s.bkEver[t.B] = true, true
					e.Cb = append(e.Cb, []int{t.B, 4096 + t.B})
				}
				touched[t.N] = true
				s.lvl[t.N] = nl
				e.Add = append(e.Add, []int{nl, t.N})
			}
		}
		// unused backings / unreferenced blob files may go
		used := map[int]bool{}
		refd := map[int]bool{}
		for n := range s.lvl {
			used[s.cat[n].B] = true
			for _, r := range s.cat[n].Refs {
				refd[r[0]] = true
			}
		}
		created := map[int]bool{}
		for _, c := range e.Cb {
			created[c[0]] = true
		}
		for b := range s.bk {
			if !used[b] && !created[b] && rng.Intn(2) == 0 {
				delete(s.bk, b)
				e.Rb = append(e.Rb, b)
			}
		}
		sort.Ints(e.Rb)
		replaced := map[int]bool{}
		for _, x := range e.Nb {
			replaced[x[0]] = true
		}
		for id, ph := range s.bl {
			if !refd[id] && !replaced[id] && rng.Intn(3) == 0 {
				delete(s.bl, id)
				e.Db = append(e.Db, []int{id, ph})
			}
		}
		vVeSort2(e.Db)
		for n, l := range s.lvl {
			if !s.mk[[2]int{l, n}] && rng.Intn(10) == 0 {
				s.mk[[2]int{l, n}] = true
				e.Mk = append(e.Mk, []int{l, n})
			}
		}
		vVeSort2(e.Mk)
		if rng.Intn(40) == 0 && len(e.Del) > 0 { // an invalid edit now and then: TLC must judge it inadmissible
			e.Del = append(e.Del, []int{4, in.Tabs[0].N})
		}
		in.Es = append(in.Es, e)
	}
	vVeNorm(in)
	return in
}

// TestVVe: VERIF_CASES (TLC-emitted inputs), VERIF_RANDOM, VERIF_OUT.
func TestVVe(t *testing.T) {
	f, err := os.Create(os.Getenv("VERIF_OUT"))
	if err != nil {
		t.Fatal(err)
	}
	w := bufio.NewWriterSize(f, 1<<20)
	defer func() { w.Flush(); f.Close() }()
	put := func(v any) {
		b, err := json.Marshal(v)
		if err != nil {
			t.Fatal(err)
		}
		w.Write(b)
		w.WriteByte('\n')
	}
	emit := func(in *vVeIn, must bool) {
		vVeNorm(in)
		out := vVeRun(in)
		put(map[string]any{"op": "in", "must": must, "c": in})
		put(map[string]any{"op": "out", "o": out})
	}
	ncases := 0
	if p := os.Getenv("VERIF_CASES"); p != "" {
		cf, err := os.Open(p)
		if err != nil {
			t.Fatal(err)
		}
		sc := bufio.NewScanner(cf)
		sc.Buffer(make([]byte, 1<<20), 1<<26)
		for sc.Scan() {
			if len(sc.Bytes()) == 0 {
				continue
			}
			var in vVeIn
			if err := json.Unmarshal(sc.Bytes(), &in); err != nil {
				t.Fatal(err)
			}
			emit(&in, true)
			ncases++
		}
		cf.Close()
	}
	rng := rand.New(rand.NewSource(int64(vVeEnvInt("VERIF_SEED", 1))))
	nr := vVeEnvInt("VERIF_RANDOM", 0)
	for i := 0; i < nr; i++ {
		emit(vVeRandom(rng, vVeEnvInt("VERIF_NTABS", 6), vVeEnvInt("VERIF_MAXEDITS", 4)), false)
	}
	fmt.Printf("DRIVER-DONE cases=%d random=%d\n", ncases, nr)
}
