package atomicfs

// C24 driver (engine "proto").  Exhaustive on the real code: for every start
// directory reachable by crashes, every script of Move / RemoveObsolete calls
// (with at most one injected Remove error) within the bounds, a crash clone is
// taken after EVERY filesystem operation with EVERY subset of the unsynced
// directory entries ((*MemFS).CrashCloneWith from the overlay), ReadMarker is
// evaluated on each clone, and each clone becomes a new start directory (the
// process "restarts" there) while the crash budget lasts.  Go only executes and
// records; the trace is judged by TLC (spec/Marker/MarkerTrace.tla).

import (
	"bufio"
	"encoding/json"
	"fmt"
	"os"
	"sort"
	"strconv"
	"strings"
	"testing"

	"github.com/cockroachdb/errors"
	"github.com/cockroachdb/pebble/vfs"
)

const vProtoMkDir = "d"
const vProtoMkName = "m"

type vProtoMkFile [2]int // iter, value id

type vProtoMkTrace struct {
	w *bufio.Writer
	n int
}

func (t *vProtoMkTrace) emit(ev map[string]any) {
	b, err := json.Marshal(ev)
	if err != nil {
		panic(err)
	}
	t.w.Write(b)
	t.w.WriteByte('\n')
	t.n++
}

func vProtoMkValID(v string) int {
	if v == "" {
		return 0
	}
	if !strings.HasPrefix(v, "v") {
		return -1
	}
	n, err := strconv.Atoi(v[1:])
	if err != nil {
		return -1
	}
	return n
}

func vProtoMkParse(filename string) (vProtoMkFile, bool) {
	if !strings.HasPrefix(filename, "marker.") {
		return vProtoMkFile{}, false
	}
	name, iter, value, err := parseMarkerFilename(filename)
	if err != nil || name != vProtoMkName {
		return vProtoMkFile{-1, -1}, true
	}
	return vProtoMkFile{int(iter), vProtoMkValID(value)}, true
}

func vProtoMkFiles(fs vfs.FS) []vProtoMkFile {
	ls, err := fs.List(vProtoMkDir)
	if err != nil {
		panic(err)
	}
	var res []vProtoMkFile
	for _, n := range ls {
		if f, ok := vProtoMkParse(n); ok {
			res = append(res, f)
		}
	}
	sort.Slice(res, func(i, j int) bool { return res[i][0] < res[j][0] || (res[i][0] == res[j][0] && res[i][1] < res[j][1]) })
	return res
}

func vProtoMkRead(fs vfs.FS) int {
	v, err := ReadMarker(fs, vProtoMkDir, vProtoMkName)
	if err != nil {
		return -1
	}
	return vProtoMkValID(v)
}

func vProtoMkJSON(fs []vProtoMkFile) [][2]int {
	r := make([][2]int, 0, len(fs))
	for _, f := range fs {
		r = append(r, [2]int(f))
	}
	return r
}

// ---- the wrapped filesystem: numbers every mutating op and calls the explorer after it
type vProtoMkFS struct {
	vfs.FS
	x *vProtoMkRun
}

type vProtoMkFileW struct {
	vfs.File
	x     *vProtoMkRun
	isDir bool
	f     vProtoMkFile
}

func (w *vProtoMkFS) Create(name string, cat vfs.DiskWriteCategory) (vfs.File, error) {
	f, err := w.FS.Create(name, cat)
	if err != nil {
		return nil, err
	}
	mf, _ := vProtoMkParse(w.FS.PathBase(name))
	w.x.afterOp("create", mf, true)
	return &vProtoMkFileW{File: f, x: w.x, f: mf}, nil
}

func (w *vProtoMkFS) Remove(name string) error {
	mf, _ := vProtoMkParse(w.FS.PathBase(name))
	if w.x.failRemove {
		w.x.failRemove = false
		w.x.afterOp("remove", mf, false)
		return errors.New("verif: injected remove error")
	}
	err := w.FS.Remove(name)
	w.x.afterOp("remove", mf, err == nil)
	return err
}

func (w *vProtoMkFS) OpenDir(name string) (vfs.File, error) {
	f, err := w.FS.OpenDir(name)
	if err != nil {
		return nil, err
	}
	return &vProtoMkFileW{File: f, x: w.x, isDir: true}, nil
}

func (f *vProtoMkFileW) Sync() error {
	err := f.File.Sync()
	if f.isDir {
		f.x.afterOp("syncdir", vProtoMkFile{}, err == nil)
	} else {
		f.x.afterOp("syncfile", f.f, err == nil)
	}
	return err
}

func (f *vProtoMkFileW) Close() error {
	err := f.File.Close()
	if !f.isDir {
		f.x.afterOp("close", f.f, err == nil)
	}
	return err
}

// ---- exploration
type vProtoMkItem struct {
	files       []vProtoMkFile
	movesLeft   int
	crashesLeft int
}

func (it vProtoMkItem) key() string {
	return fmt.Sprint(it.files, it.movesLeft, it.crashesLeft)
}

type vProtoMkExplorer struct {
	t        *vProtoMkTrace
	seen     map[string]bool
	queue    []vProtoMkItem
	scriptLn int
	// stats
	scripts, clones, nontrivial, restarts int
	listings                              map[string]bool
}

type vProtoMkRun struct {
	e          *vProtoMkExplorer
	mem        *vfs.MemFS
	item       vProtoMkItem
	n          int
	movesUsed  int
	failRemove bool
}

// crash clones after the op that just completed
func (r *vProtoMkRun) clones() {
	var uns []string
	var unsF []vProtoMkFile
	for _, it := range r.mem.UnsyncedItems() {
		if !it.IsDirEntry || !strings.HasPrefix(it.Path, vProtoMkDir+"/") {
			continue
		}
		if f, ok := vProtoMkParse(it.Path[len(vProtoMkDir)+1:]); ok {
			uns = append(uns, it.Path)
			unsF = append(unsF, f)
		}
	}
	for mask := 0; mask < 1<<len(uns); mask++ {
		keep := map[string]bool{}
		keepF := []vProtoMkFile{}
		for i := range uns {
			if mask&(1<<i) != 0 {
				keep[uns[i]] = true
				keepF = append(keepF, unsF[i])
			}
		}
		clone := r.mem.CrashCloneWith(func(path string, isDirEntry bool, block int) bool {
			return isDirEntry && keep[path]
		})
		res := vProtoMkRead(clone)
		r.e.t.emit(map[string]any{"op": "crashread", "n": r.n, "keep": vProtoMkJSON(keepF), "unsynced": vProtoMkJSON(unsF), "res": res})
		r.e.clones++
		if len(uns) > 0 {
			r.e.nontrivial++
		}
		ls := vProtoMkFiles(clone)
		r.e.listings[fmt.Sprint(ls)] = true
		if r.item.crashesLeft > 0 && r.item.movesLeft-r.movesUsed > 0 && r.n > 0 {
			ni := vProtoMkItem{files: ls, movesLeft: r.item.movesLeft - r.movesUsed, crashesLeft: r.item.crashesLeft - 1}
			if !r.e.seen[ni.key()] {
				r.e.seen[ni.key()] = true
				r.e.queue = append(r.e.queue, ni)
				r.e.restarts++
			}
		}
	}
}

func (r *vProtoMkRun) afterOp(kind string, f vProtoMkFile, ok bool) {
	r.n++
	r.e.t.emit(map[string]any{"op": "fs", "n": r.n, "kind": kind, "it": f[0], "v": f[1], "ok": ok})
	r.clones()
}

// scripts: all sequences of exactly `ln` ops over M (Move), F (Move whose Remove of the old
// file fails), R (RemoveObsolete), Q (RemoveObsolete whose first Remove fails), with at most
// `moves` moves, at most one injected failure and no two RemoveObsolete in a row.  Prefixes
// need no separate run: the crash clones of a prefix are those of the longer script.
func vProtoMkScripts(ln, moves int) []string {
	var res []string
	var rec func(cur string, m, fails int)
	rec = func(cur string, m, fails int) {
		if len(cur) == ln {
			res = append(res, cur)
			return
		}
		ext := false
		if m < moves {
			rec(cur+"M", m+1, fails)
			ext = true
			if fails == 0 {
				rec(cur+"F", m+1, 1)
			}
		}
		lastR := len(cur) > 0 && (cur[len(cur)-1] == 'R' || cur[len(cur)-1] == 'Q')
		if !lastR {
			rec(cur+"R", m, fails)
			ext = true
			if fails == 0 {
				rec(cur+"Q", m, 1)
			}
		}
		if !ext && cur != "" {
			res = append(res, cur)
		}
	}
	rec("", 0, 0)
	return res
}

func (e *vProtoMkExplorer) runScript(item vProtoMkItem, script string) {
	mem := vfs.NewCrashableMem()
	if err := mem.MkdirAll(vProtoMkDir, 0755); err != nil {
		panic(err)
	}
	maxv := 0
	for _, f := range item.files {
		fl, err := mem.Create(mem.PathJoin(vProtoMkDir, markerFilename(vProtoMkName, uint64(f[0]), fmt.Sprintf("v%d", f[1]))), vfs.WriteCategoryUnspecified)
		if err != nil {
			panic(err)
		}
		fl.Sync()
		fl.Close()
		if f[1] > maxv {
			maxv = f[1]
		}
	}
	for _, d := range []string{vProtoMkDir, ""} {
		df, err := mem.OpenDir(d)
		if err != nil {
			panic(err)
		}
		df.Sync()
		df.Close()
	}
	r := &vProtoMkRun{e: e, mem: mem, item: item}
	wfs := &vProtoMkFS{FS: mem, x: r}
	mk, val, err := LocateMarker(wfs, vProtoMkDir, vProtoMkName)
	if err != nil {
		panic(err)
	}
	e.scripts++
	e.t.emit(map[string]any{"op": "start", "files": vProtoMkJSON(item.files), "val": vProtoMkValID(val), "script": script,
		"movesleft": item.movesLeft, "crashesleft": item.crashesLeft})
	r.clones()
	for _, c := range script {
		switch c {
		case 'M', 'F':
			maxv++
			r.movesUsed++
			r.failRemove = c == 'F'
			e.t.emit(map[string]any{"op": "call", "what": "move", "v": maxv})
			err := mk.Move(fmt.Sprintf("v%d", maxv))
			r.failRemove = false
			e.t.emit(map[string]any{"op": "ret", "what": "move", "ok": err == nil})
			r.clones() // Move returned: the new value must survive every crash from here on
		case 'R', 'Q':
			r.failRemove = c == 'Q'
			e.t.emit(map[string]any{"op": "call", "what": "removeobsolete", "v": 0})
			err := mk.RemoveObsolete()
			r.failRemove = false
			e.t.emit(map[string]any{"op": "ret", "what": "removeobsolete", "ok": err == nil})
			r.clones()
		}
		e.t.emit(map[string]any{"op": "liveread", "res": vProtoMkRead(mem)})
	}
	mk.Close()
}

// TestVProtoMarker: VERIF_OUT (dir), VERIF_MOVES, VERIF_LEN, VERIF_CRASHES.
func TestVProtoMarker(t *testing.T) {
	out := os.Getenv("VERIF_OUT")
	if out == "" {
		t.Skip("VERIF_OUT not set")
	}
	geti := func(k string, d int) int {
		if v, err := strconv.Atoi(os.Getenv(k)); err == nil {
			return v
		}
		return d
	}
	moves, ln, crashes := geti("VERIF_MOVES", 3), geti("VERIF_LEN", 4), geti("VERIF_CRASHES", 2)
	f, err := os.Create(out + "/marker.ndjson")
	if err != nil {
		t.Fatal(err)
	}
	tr := &vProtoMkTrace{w: bufio.NewWriterSize(f, 1<<20)}
	e := &vProtoMkExplorer{t: tr, seen: map[string]bool{}, listings: map[string]bool{}, scriptLn: ln}
	first := vProtoMkItem{files: nil, movesLeft: moves, crashesLeft: crashes}
	e.seen[first.key()] = true
	e.queue = append(e.queue, first)
	items := 0
	for len(e.queue) > 0 {
		it := e.queue[0]
		e.queue = e.queue[1:]
		items++
		for _, s := range vProtoMkScripts(ln, it.movesLeft) {
			e.runScript(it, s)
		}
	}
	tr.w.Flush()
	f.Close()
	st, _ := json.Marshal(map[string]any{"items": items, "scripts": e.scripts, "clones": e.clones, "nontrivial_clones": e.nontrivial,
		"events": tr.n, "distinct_crash_listings": len(e.listings), "moves": moves, "len": ln, "crashes": crashes})
	fmt.Printf("DRIVER-STATS %s\n", st)
	fmt.Printf("DRIVER-DONE\n")
}
