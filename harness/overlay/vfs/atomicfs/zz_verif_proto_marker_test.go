package atomicfs

// C24 driver (engine "proto").  Exhaustive on the real code: for every start
// directory reachable by crashes, every script of Move / RemoveObsolete /
// re-LocateMarker calls within the bounds - with injected I/O errors at every
// filesystem step of Move (Create with and without the file coming into
// existence, the marker file's Sync, its Close, the Remove of the old marker,
// the directory Sync, which makes Move panic) and of RemoveObsolete, and with
// retries of a failed Move with the same and with a different value - a crash
// clone is taken after EVERY filesystem operation with EVERY subset of the
// unsynced directory entries ((*MemFS).CrashCloneWith from the overlay),
// ReadMarker is evaluated on each clone and the clone's directory listing is
// recorded, and each clone becomes a new start directory (the process
// "restarts" there) while the crash budget lasts.  Go only executes and
// records; the trace is judged by TLC (spec/Marker/MarkerTrace.tla).

import (
	"bufio"
	"encoding/json"
	"fmt"
	"os"
	"sort"
	"strconv"
	"strings"
	"testing"

	"github.com/cockroachdb/errors"
	"github.com/cockroachdb/pebble/vfs"
)

const vProtoMkDir = "d"
const vProtoMkName = "m"

type vProtoMkFile [2]int // iter, value id

type vProtoMkTrace struct {
	w *bufio.Writer
	n int
}

func (t *vProtoMkTrace) emit(ev map[string]any) {
	b, err := json.Marshal(ev)
	if err != nil {
		panic(err)
	}
	t.w.Write(b)
	t.w.WriteByte('\n')
	t.n++
}

func vProtoMkValID(v string) int {
	if v == "" {
		return 0
	}
	if !strings.HasPrefix(v, "v") {
		return -1
	}
	n, err := strconv.Atoi(v[1:])
	if err != nil {
		return -1
	}
	return n
}

func vProtoMkParse(filename string) (vProtoMkFile, bool) {
	if !strings.HasPrefix(filename, "marker.") {
		return vProtoMkFile{}, false
	}
	name, iter, value, err := parseMarkerFilename(filename)
	if err != nil || name != vProtoMkName {
		return vProtoMkFile{-1, -1}, true
	}
	return vProtoMkFile{int(iter), vProtoMkValID(value)}, true
}

func vProtoMkFiles(fs vfs.FS) []vProtoMkFile {
	ls, err := fs.List(vProtoMkDir)
	if err != nil {
		panic(err)
	}
	var res []vProtoMkFile
	for _, n := range ls {
		if f, ok := vProtoMkParse(n); ok {
			res = append(res, f)
		}
	}
	sort.Slice(res, func(i, j int) bool { return res[i][0] < res[j][0] || (res[i][0] == res[j][0] && res[i][1] < res[j][1]) })
	return res
}

func vProtoMkRead(fs vfs.FS) int {
	v, err := ReadMarker(fs, vProtoMkDir, vProtoMkName)
	if err != nil {
		return -1
	}
	return vProtoMkValID(v)
}

func vProtoMkJSON(fs []vProtoMkFile) [][2]int {
	r := make([][2]int, 0, len(fs))
	for _, f := range fs {
		r = append(r, [2]int(f))
	}
	return r
}

// ---- the wrapped filesystem: numbers every mutating op and calls the explorer after it
type vProtoMkFS struct {
	vfs.FS
	x *vProtoMkRun
}

type vProtoMkFileW struct {
	vfs.File
	x     *vProtoMkRun
	isDir bool
	f     vProtoMkFile
}

// takeFault reports (and consumes) the injected error of the current call if it is aimed at this kind of op.
func (r *vProtoMkRun) takeFault(kinds ...string) string {
	for _, k := range kinds {
		if r.fault == k {
			r.fault = ""
			return k
		}
	}
	return ""
}

var errVProtoMkInjected = errors.New("verif: injected I/O error")

func (w *vProtoMkFS) Create(name string, cat vfs.DiskWriteCategory) (vfs.File, error) {
	mf, isMarker := vProtoMkParse(w.FS.PathBase(name))
	if isMarker {
		switch w.x.takeFault("create", "createlost") {
		case "create": // the error is returned and nothing was created
			w.x.afterOp("create", mf, false, false)
			return nil, errVProtoMkInjected
		case "createlost": // the file came into existence but the acknowledgement was lost
			if f, err := w.FS.Create(name, cat); err == nil {
				f.Close()
				w.x.afterOp("create", mf, false, true)
				return nil, errVProtoMkInjected
			}
		}
	}
	f, err := w.FS.Create(name, cat)
	if err != nil {
		return nil, err
	}
	w.x.afterOp("create", mf, true, true)
	return &vProtoMkFileW{File: f, x: w.x, f: mf}, nil
}

func (w *vProtoMkFS) Remove(name string) error {
	mf, _ := vProtoMkParse(w.FS.PathBase(name))
	if w.x.takeFault("remove") != "" {
		w.x.afterOp("remove", mf, false, false)
		return errVProtoMkInjected
	}
	err := w.FS.Remove(name)
	w.x.afterOp("remove", mf, err == nil, err == nil)
	return err
}

func (w *vProtoMkFS) OpenDir(name string) (vfs.File, error) {
	f, err := w.FS.OpenDir(name)
	if err != nil {
		return nil, err
	}
	return &vProtoMkFileW{File: f, x: w.x, isDir: true}, nil
}

func (f *vProtoMkFileW) Sync() error {
	if f.isDir {
		if f.x.takeFault("syncdir") != "" {
			f.x.afterOp("syncdir", vProtoMkFile{}, false, false)
			return errVProtoMkInjected
		}
		err := f.File.Sync()
		f.x.afterOp("syncdir", vProtoMkFile{}, err == nil, err == nil)
		return err
	}
	if f.x.takeFault("syncfile") != "" {
		f.x.afterOp("syncfile", f.f, false, false)
		return errVProtoMkInjected
	}
	err := f.File.Sync()
	f.x.afterOp("syncfile", f.f, err == nil, err == nil)
	return err
}

func (f *vProtoMkFileW) Close() error {
	err := f.File.Close()
	if !f.isDir {
		if err == nil && f.x.takeFault("close") != "" {
			err = errVProtoMkInjected
		}
		f.x.afterOp("close", f.f, err == nil, err == nil)
	}
	return err
}

// ---- exploration
type vProtoMkItem struct {
	files       []vProtoMkFile
	movesLeft   int
	crashesLeft int
	faultsLeft  int
}

func (it vProtoMkItem) key() string {
	return fmt.Sprint(it.files, it.movesLeft, it.crashesLeft, it.faultsLeft)
}

type vProtoMkExplorer struct {
	t        *vProtoMkTrace
	seen     map[string]bool
	queue    []vProtoMkItem
	scriptLn int
	// stats
	scripts, clones, nontrivial, restarts, failedMoves, retriesSame, retriesOther, panics, relocates int
	retryStepsSame, retryStepsOther                                                                  int // as scripted (expected failures), whatever the code did
	listings                                                                                         map[string]bool
	faultsInjected                                                                                   map[string]int
}

type vProtoMkRun struct {
	e          *vProtoMkExplorer
	mem        *vfs.MemFS
	item       vProtoMkItem
	n          int
	movesUsed  int
	faultsUsed int
	fault      string // the injected error of the call in progress ("" = none / already delivered)
}

// crash clones after the op that just completed
func (r *vProtoMkRun) clones() {
	var uns []string
	var unsF []vProtoMkFile
	for _, it := range r.mem.UnsyncedItems() {
		if !it.IsDirEntry || !strings.HasPrefix(it.Path, vProtoMkDir+"/") {
			continue
		}
		if f, ok := vProtoMkParse(it.Path[len(vProtoMkDir)+1:]); ok {
			uns = append(uns, it.Path)
			unsF = append(unsF, f)
		}
	}
	for mask := 0; mask < 1<<len(uns); mask++ {
		keep := map[string]bool{}
		keepF := []vProtoMkFile{}
		for i := range uns {
			if mask&(1<<i) != 0 {
				keep[uns[i]] = true
				keepF = append(keepF, unsF[i])
			}
		}
		clone := r.mem.CrashCloneWith(func(path string, isDirEntry bool, block int) bool {
			return isDirEntry && keep[path]
		})
		res := vProtoMkRead(clone)
		ls := vProtoMkFiles(clone)
		r.e.t.emit(map[string]any{"op": "crashread", "n": r.n, "keep": vProtoMkJSON(keepF), "unsynced": vProtoMkJSON(unsF),
			"files": vProtoMkJSON(ls), "res": res})
		r.e.clones++
		if len(uns) > 0 {
			r.e.nontrivial++
		}
		r.e.listings[fmt.Sprint(ls)] = true
		if r.item.crashesLeft > 0 && r.item.movesLeft-r.movesUsed > 0 && r.n > 0 {
			ni := vProtoMkItem{files: ls, movesLeft: r.item.movesLeft - r.movesUsed, crashesLeft: r.item.crashesLeft - 1,
				faultsLeft: r.item.faultsLeft - r.faultsUsed}
			if !r.e.seen[ni.key()] {
				r.e.seen[ni.key()] = true
				r.e.queue = append(r.e.queue, ni)
				r.e.restarts++
			}
		}
	}
}

// made: the op took effect on the filesystem (differs from ok only for a Create whose acknowledgement was lost)
func (r *vProtoMkRun) afterOp(kind string, f vProtoMkFile, ok, made bool) {
	r.n++
	r.e.t.emit(map[string]any{"op": "fs", "n": r.n, "kind": kind, "it": f[0], "v": f[1], "ok": ok, "made": made})
	r.clones()
}

// One step of a script: "M" Move to a fresh value, "m" Move to the value of the previous Move, which
// returned an error (a retry with the same value), "R" RemoveObsolete, "L" Close + LocateMarker on the
// live directory; "M"/"m"/"R" optionally carry an injected error: "M!syncfile", "R!remove", ...
var vProtoMkMoveFaults = []string{"create", "createlost", "syncfile", "close", "remove", "syncdir"}

// scripts: all sequences of exactly `ln` steps with at most `moves` Moves and at most `faults` injected
// errors, no two RemoveObsolete and no two re-locates in a row, nothing after a Move that panicked
// (directory Sync error).  Prefixes need no separate run: the crash clones of a prefix are those of
// the longer script.
func vProtoMkScripts(ln, moves, faults int) [][]string {
	var res [][]string
	var rec func(cur []string, m, fl int, lastFailed bool)
	rec = func(cur []string, m, fl int, lastFailed bool) {
		last := ""
		if len(cur) > 0 {
			last = cur[len(cur)-1]
		}
		if len(cur) == ln || strings.HasSuffix(last, "!syncdir") {
			res = append(res, append([]string(nil), cur...))
			return
		}
		ext := false
		if m < moves {
			kinds := []string{"M"}
			if lastFailed {
				kinds = append(kinds, "m")
			}
			for _, k := range kinds {
				rec(append(cur, k), m+1, fl, false)
				ext = true
				if fl < faults {
					for _, f := range vProtoMkMoveFaults {
						// an error of the Remove of the old marker does not fail the Move
						rec(append(cur, k+"!"+f), m+1, fl+1, f != "remove")
					}
				}
			}
		}
		if last == "" || last[0] != 'R' {
			rec(append(cur, "R"), m, fl, lastFailed)
			ext = true
			if fl < faults {
				rec(append(cur, "R!remove"), m, fl+1, lastFailed)
			}
		}
		if last != "" && last != "L" {
			rec(append(cur, "L"), m, fl, lastFailed)
			ext = true
		}
		if !ext && len(cur) > 0 {
			res = append(res, append([]string(nil), cur...))
		}
	}
	rec(nil, 0, 0, false)
	return res
}

func (e *vProtoMkExplorer) runScript(item vProtoMkItem, script []string) {
	mem := vfs.NewCrashableMem()
	if err := mem.MkdirAll(vProtoMkDir, 0755); err != nil {
		panic(err)
	}
	maxv := 0
	for _, f := range item.files {
		fl, err := mem.Create(mem.PathJoin(vProtoMkDir, markerFilename(vProtoMkName, uint64(f[0]), fmt.Sprintf("v%d", f[1]))), vfs.WriteCategoryUnspecified)
		if err != nil {
			panic(err)
		}
		fl.Sync()
		fl.Close()
		if f[1] > maxv {
			maxv = f[1]
		}
	}
	for _, d := range []string{vProtoMkDir, ""} {
		df, err := mem.OpenDir(d)
		if err != nil {
			panic(err)
		}
		df.Sync()
		df.Close()
	}
	r := &vProtoMkRun{e: e, mem: mem, item: item}
	wfs := &vProtoMkFS{FS: mem, x: r}
	mk, val, err := LocateMarker(wfs, vProtoMkDir, vProtoMkName)
	if err != nil {
		panic(err)
	}
	e.scripts++
	e.t.emit(map[string]any{"op": "start", "files": vProtoMkJSON(item.files), "val": vProtoMkValID(val), "script": script,
		"movesleft": item.movesLeft, "crashesleft": item.crashesLeft, "faultsleft": item.faultsLeft})
	r.clones()
	lastFailed := false
	scriptedFail := false // the previous step was a Move scripted to fail
	for _, step := range script {
		kind, fault := step, ""
		if i := strings.IndexByte(step, '!'); i >= 0 {
			kind, fault = step[:i], step[i+1:]
		}
		if kind == "m" {
			e.retryStepsSame++
		} else if kind == "M" && scriptedFail {
			e.retryStepsOther++
		}
		if kind == "M" || kind == "m" {
			scriptedFail = fault != "" && fault != "remove"
		}
		if fault != "" {
			r.faultsUsed++
			e.faultsInjected[kind+"!"+fault]++
		}
		r.fault = fault
		dead := false
		switch kind {
		case "M", "m":
			if kind == "M" {
				maxv++
			} else if lastFailed {
				e.retriesSame++
			}
			if kind == "M" && lastFailed {
				e.retriesOther++
			}
			r.movesUsed++
			e.t.emit(map[string]any{"op": "call", "what": "move", "v": maxv})
			var err error
			func() {
				defer func() {
					if p := recover(); p != nil {
						dead = true
						err = fmt.Errorf("panic: %v", p)
					}
				}()
				err = mk.Move(fmt.Sprintf("v%d", maxv))
			}()
			e.t.emit(map[string]any{"op": "ret", "what": "move", "ok": err == nil, "panic": dead})
			lastFailed = err != nil
			if err != nil {
				e.failedMoves++
			}
			if dead {
				e.panics++
			}
			r.clones() // Move returned nil: the new value must survive every crash from here on
		case "R":
			e.t.emit(map[string]any{"op": "call", "what": "removeobsolete", "v": 0})
			err := mk.RemoveObsolete()
			e.t.emit(map[string]any{"op": "ret", "what": "removeobsolete", "ok": err == nil, "panic": false})
			r.clones()
		case "L":
			mk.Close()
			var v string
			mk, v, err = LocateMarker(wfs, vProtoMkDir, vProtoMkName)
			if err != nil {
				panic(err)
			}
			e.relocates++
			e.t.emit(map[string]any{"op": "relocate", "files": vProtoMkJSON(vProtoMkFiles(mem)), "val": vProtoMkValID(v)})
		}
		r.fault = ""
		if dead {
			break // the process is dying: only the crash clones above
		}
		e.t.emit(map[string]any{"op": "liveread", "res": vProtoMkRead(mem), "files": vProtoMkJSON(vProtoMkFiles(mem))})
	}
	mk.Close()
}

// TestVProtoMarker: VERIF_OUT (dir), VERIF_MOVES, VERIF_LEN, VERIF_CRASHES, VERIF_FAULTS.
func TestVProtoMarker(t *testing.T) {
	out := os.Getenv("VERIF_OUT")
	if out == "" {
		t.Skip("VERIF_OUT not set")
	}
	geti := func(k string, d int) int {
		if v, err := strconv.Atoi(os.Getenv(k)); err == nil {
			return v
		}
		return d
	}
	moves, ln, crashes, faults := geti("VERIF_MOVES", 3), geti("VERIF_LEN", 4), geti("VERIF_CRASHES", 2), geti("VERIF_FAULTS", 1)
	f, err := os.Create(out + "/marker.ndjson")
	if err != nil {
		t.Fatal(err)
	}
	tr := &vProtoMkTrace{w: bufio.NewWriterSize(f, 1<<20)}
	e := &vProtoMkExplorer{t: tr, seen: map[string]bool{}, listings: map[string]bool{}, scriptLn: ln, faultsInjected: map[string]int{}}
	first := vProtoMkItem{files: nil, movesLeft: moves, crashesLeft: crashes, faultsLeft: faults}
	e.seen[first.key()] = true
	e.queue = append(e.queue, first)
	items := 0
	for len(e.queue) > 0 {
		it := e.queue[0]
		e.queue = e.queue[1:]
		items++
		for _, s := range vProtoMkScripts(ln, it.movesLeft, it.faultsLeft) {
			e.runScript(it, s)
		}
	}
	tr.w.Flush()
	f.Close()
	st, _ := json.Marshal(map[string]any{"items": items, "scripts": e.scripts, "clones": e.clones, "nontrivial_clones": e.nontrivial,
		"events": tr.n, "distinct_crash_listings": len(e.listings), "moves": moves, "len": ln, "crashes": crashes, "faults": faults,
		"failed_moves": e.failedMoves, "retries_same_value": e.retriesSame, "retries_other_value": e.retriesOther,
		"move_panics": e.panics, "relocates": e.relocates,
		"retry_steps_same_value": e.retryStepsSame, "retry_steps_other_value": e.retryStepsOther, "faults_injected": e.faultsInjected})
	fmt.Printf("DRIVER-STATS %s\n", st)
	fmt.Printf("DRIVER-DONE\n")
}
