//go:build verif

// Added to package vfs through the /verif overlay (a pure addition; nothing in
// /repo is replaced).  Deterministic counterpart of (*MemFS).CrashClone: the
// caller decides, item by item, which unsynced directory entries and which
// unsynced data blocks survive the crash.  The clone is otherwise built exactly
// like memNode.CrashClone in mem_fs.go:
//
//	directory: children' = syncedChildren overlaid with the kept subset of children
//	file:      data'     = syncedData overlaid with the kept subset of 4 KiB blocks of data
//	           (zeros in gaps past the synced length)
//
// so an unsynced *removal* never takes effect, an unsynced creation/rename/link
// may or may not, and a file keeps its synced bytes.

package vfs

import (
	"bytes"
	"maps"
	"slices"
	"sort"

	"github.com/cockroachdb/errors"
)

// VerifCrashBlockSize is the granularity at which unsynced file data survives.
const VerifCrashBlockSize = 4096

// VerifUnsyncedItem names one independently surviving piece of unsynced state.
// Directory entry: IsDirEntry = true, Block = -1, Path = full path of the entry.
// Data block:      IsDirEntry = false, Block = index of the 4 KiB block, Path = full path of the file.
type VerifUnsyncedItem struct {
	Path       string
	IsDirEntry bool
	Block      int
}

func verifJoin(dir, name string) string {
	if dir == "" {
		return name
	}
	return dir + sep + name
}

// verifBlockUnsynced reports whether block b of the node's data differs from what a
// crash clone holding only the synced data would contain.
func verifBlockUnsynced(data, synced []byte, b int) bool {
	lo := b * VerifCrashBlockSize
	hi := min(lo+VerifCrashBlockSize, len(data))
	if hi > len(synced) {
		return true
	}
	return !bytes.Equal(data[lo:hi], synced[lo:hi])
}

// CrashCloneWith creates a crash clone of the filesystem in which exactly the
// unsynced items for which keep returns true survive.  keep is called once per
// unsynced item reached, in a deterministic order (directory entries by sorted
// name, then depth first; blocks in increasing order).  It is only called for
// items that are actually unsynced: a directory entry whose node differs from
// the synced entry of the same name (or that has no synced entry), and a data
// block whose bytes differ from the synced bytes (or lie beyond them).
// keep == nil keeps nothing (= CrashClone(CrashCloneCfg{})).
func (y *MemFS) CrashCloneWith(keep func(path string, isDirEntry bool, block int) bool) *MemFS {
	if !y.crashable {
		panic(errors.AssertionFailedf("not a crashable MemFS"))
	}
	if keep == nil {
		keep = func(string, bool, int) bool { return false }
	}
	// Block all modification operations while we clone.
	y.cloneMu.Lock()
	defer y.cloneMu.Unlock()
	newFS := &MemFS{crashable: true}
	newFS.windowsSemantics = y.windowsSemantics
	newFS.root = y.root.verifCrashCloneWith("", keep)
	return newFS
}

func (f *memNode) verifCrashCloneWith(
	path string, keep func(path string, isDirEntry bool, block int) bool,
) *memNode {
	newNode := &memNode{isDir: f.isDir}
	if f.isDir {
		newNode.children = maps.Clone(f.syncedChildren)
		if newNode.children == nil {
			newNode.children = make(map[string]*memNode)
		}
		names := slices.Collect(maps.Keys(f.children))
		sort.Strings(names)
		for _, name := range names {
			child := f.children[name]
			if sc, ok := f.syncedChildren[name]; ok && sc == child {
				continue // synced entry: always there
			}
			if keep(verifJoin(path, name), true, -1) {
				newNode.children[name] = child
			}
		}
		names = slices.Collect(maps.Keys(newNode.children))
		sort.Strings(names)
		for _, name := range names {
			newNode.children[name] = newNode.children[name].verifCrashCloneWith(verifJoin(path, name), keep)
		}
		newNode.syncedChildren = maps.Clone(newNode.children)
	} else {
		newNode.mu.data = slices.Clone(f.mu.syncedData)
		newNode.mu.modTime = f.mu.modTime
		for i, b := 0, 0; i < len(f.mu.data); i, b = i+VerifCrashBlockSize, b+1 {
			if !verifBlockUnsynced(f.mu.data, f.mu.syncedData, b) {
				continue
			}
			if keep(path, false, b) {
				block := f.mu.data[i:min(i+VerifCrashBlockSize, len(f.mu.data))]
				if grow := i + len(block) - len(newNode.mu.data); grow > 0 {
					newNode.mu.data = append(newNode.mu.data, make([]byte, grow)...)
				}
				copy(newNode.mu.data[i:], block)
			}
		}
		newNode.mu.syncedData = slices.Clone(newNode.mu.data)
	}
	return newNode
}

// UnsyncedItems lists every unsynced item that some CrashCloneWith call could ask
// about: unsynced directory entries (and, below them, the items of both the
// current and the synced node of that name) and unsynced data blocks.  Sorted,
// without duplicates.
func (y *MemFS) UnsyncedItems() []VerifUnsyncedItem {
	if !y.crashable {
		panic(errors.AssertionFailedf("not a crashable MemFS"))
	}
	y.cloneMu.Lock()
	defer y.cloneMu.Unlock()
	seen := map[VerifUnsyncedItem]bool{}
	visited := map[*memNode]map[string]bool{}
	var walk func(n *memNode, path string)
	walk = func(n *memNode, path string) {
		if visited[n] == nil {
			visited[n] = map[string]bool{}
		}
		if visited[n][path] {
			return
		}
		visited[n][path] = true
		if !n.isDir {
			for i, b := 0, 0; i < len(n.mu.data); i, b = i+VerifCrashBlockSize, b+1 {
				if verifBlockUnsynced(n.mu.data, n.mu.syncedData, b) {
					seen[VerifUnsyncedItem{Path: path, IsDirEntry: false, Block: b}] = true
				}
			}
			return
		}
		for name, child := range n.children {
			p := verifJoin(path, name)
			if sc, ok := n.syncedChildren[name]; !ok || sc != child {
				seen[VerifUnsyncedItem{Path: p, IsDirEntry: true, Block: -1}] = true
			}
			walk(child, p)
		}
		for name, sc := range n.syncedChildren {
			walk(sc, verifJoin(path, name))
		}
	}
	walk(y.root, "")
	items := slices.Collect(maps.Keys(seen))
	sort.Slice(items, func(i, j int) bool {
		a, b := items[i], items[j]
		if a.Path != b.Path {
			return a.Path < b.Path
		}
		if a.IsDirEntry != b.IsDirEntry {
			return a.IsDirEntry
		}
		return a.Block < b.Block
	})
	return items
}
