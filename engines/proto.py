"""proto engine: small protocols, each with its own TLA+ module, bound to the real code.
  C24  Marker.tla    + MarkerTrace   : atomicfs.Marker over crashable MemFS, crash clone at every FS op x every survival subset
  C41  SharedObj.tla + SharedObjTrace: TLC state graph -> forced interleavings on real providers over a gated remote.Storage
  C30  Skiplist.tla  + SkiplistTrace : arenaskl concurrent inserts (hook-free exploration; forced schedules when internal/verifhook exists)
  C34  Cache.tla     + CacheTrace    : internal/cache sequential op sequences + read-shard schedules through the read function gate
Verdicts follow DESIGN 4: TLC judges every real trace; a rejection in the internal (structural) vocabulary is DRIFT and the
observable-only validation (Strict = FALSE) of the same / of exploration traces decides."""
import re, json, os, random, re, shutil, time
import vlib

W = int(os.environ.get("VERIF_WORKERS", "0") or 0) or min(vlib.NCPU, 8)
SFX = os.environ.get("VERIF_DRV_SUFFIX", "")   # lets a scratch-worktree run build its own driver binaries


# ----------------------------------------------------------------------------------------------
# shared helpers
def _cfg(spec, consts, extra=""):
    lines = ["SPECIFICATION %s" % spec, "CONSTANTS"]
    for k, v in consts.items():
        if isinstance(v, bool):
            v = "TRUE" if v else "FALSE"
        lines.append("  %s = %s" % (k, v))
    return ("\n".join(lines) + "\n" + extra).encode()


def _trace_cfg(consts):
    return _cfg("TraceSpec", consts, "CONSTRAINT HWM\nPOSTCONDITION TraceAccepted\nCHECK_DEADLOCK FALSE\n")


def _validate(specdir, module, consts, path, timeout=1500, deque=False, heap="6g"):
    v = vlib.validate_trace(specdir, module, "TraceRun.cfg", path, timeout=timeout, deque=deque, heap=heap,
                            extra_files={"TraceRun.cfg": _trace_cfg(consts)})
    if not v.accepted and (v.tlc.violation or ("Error:" in v.tlc.out and "TraceAccepted" not in v.tlc.out)):
        raise vlib.Inconclusive("trace spec error during validation (%s):\n%s" % (module, v.tlc.out[-3000:]))
    mm = None
    for mm in re.finditer(r'"?OVERCAP"?,\s*(\d+)', v.tlc.out):
        pass
    if mm:
        OVERCAP[0] = max(OVERCAP[0], int(mm.group(1)))
    return v


OVERCAP = [0]   # C34: completed ops after which the accounted size exceeded the capacity with nothing reserved (counted by TLC)


def _segment(path, hwm, start_pred):
    """lines of the concatenated trace from the last line matching start_pred at or before index hwm, up to hwm inclusive"""
    lines = open(path).read().splitlines()
    hwm = min(hwm, len(lines) - 1)
    s = hwm
    while s > 0 and not start_pred(lines[s]):
        s -= 1
    return lines[s:hwm + 1], s


def two_stage(run, specdir, module, consts, path, observable, label, start_pred, sig_extra=None, deque=False):
    """Strict validation first; on rejection the same trace under Strict = FALSE decides (DESIGN 4).
    returns dict(strict_ok, drift=<event or None>, violated=bool, events)"""
    n = sum(1 for _ in open(path))
    res = dict(strict_ok=False, drift=None, violated=False, events=n)
    c = dict(consts)
    c["Strict"] = True
    v = _validate(specdir, module, c, path, deque=deque)
    if v.accepted:
        res["strict_ok"] = True
        return res
    c["Strict"] = False
    v2 = _validate(specdir, module, c, path, deque=deque)
    if v2.accepted:
        ev = v.rejected_line
        vlib.log("DRIFT module=%s event=%s (structural mismatch at line %d; observable-only validation accepted the trace)"
                 % (module, json.dumps(ev)[:300], v.hwm + 1))
        res["drift"] = ev
        run.cov.setdefault("drift", []).append({"module": module, "label": label, "line": v.hwm + 1, "event": ev})
        return res
    ev = v2.rejected_line
    if not isinstance(ev, dict) or ev.get("op") not in observable:
        raise vlib.Inconclusive("%s: observable-only validation rejected the trace at line %d on an event outside the "
                                "property's vocabulary: %s" % (module, v2.hwm + 1, str(ev)[:400]))
    seg, s0 = _segment(path, v2.hwm, start_pred)
    keep = os.path.join(run.outdir, "%s_rejected_%d.ndjson" % (label, len(run.violations)))
    open(keep, "w").write("\n".join(seg) + "\n")
    sig = {"kind": "trace-rejected", "module": module, "op": ev.get("op"), "label": label}
    sig.update(sig_extra or {})
    run.violation(sig, "%s: real-code trace rejected by %s (observable-only) at line %d: %s; case starts at line %d: %s"
                  % (label, module, v2.hwm + 1, json.dumps(ev)[:400], s0 + 1, seg[0][:300]),
                  replay_obj={"trace_segment": keep, "rejected_event": ev, "case_header": json.loads(seg[0]),
                              "structural_rejection_first": v.rejected_line,
                              "cmd": "VERIF_SEED=%d python3 /verif/vcheck run %s --tier %s" % (run.seed, run.prop, run.tier)})
    res["violated"] = True
    if v.hwm < v2.hwm:
        res["drift"] = v.rejected_line
    return res


def demo_reject(specdir, module, consts, lines, mutate, what, exact=True, deque=False):
    """binding demonstration: mutate(lines) -> (new_lines, index of the first line that must not be consumed)"""
    new, idx = mutate(list(lines))
    wd = vlib.scratch("verif.demo.")
    p = os.path.join(wd, "demo.ndjson")
    open(p, "w").write("\n".join(new) + "\n")
    v = _validate(specdir, module, consts, p, deque=deque)
    if v.accepted:
        raise vlib.Inconclusive("binding demo (%s): the altered trace was ACCEPTED by %s" % (what, module))
    if exact and v.hwm != idx:
        raise vlib.Inconclusive("binding demo (%s): altered line %d but %s stopped at line %d" % (what, idx + 1, module, v.hwm + 1))
    return v


def design(run, d, module, cfg, label, timeout=1700, workers=None, must_cover=None, **kw):
    r = vlib.tlc_must_pass(os.path.join(vlib.SPEC, d), module, cfg, workers=workers or W, timeout=timeout, coverage=True, **kw)
    run.add_design(label, r)
    if must_cover:
        for a in must_cover:
            if r.coverage.get(a, (0, 0))[1] == 0:
                raise vlib.Inconclusive("vacuous design run %s: action %s never taken" % (label, a))
    return r


def bugs(run, d, module, cfgs, workers=None):
    caught = {}
    for cfg, expect in cfgs:
        r = vlib.tlc_must_fail(os.path.join(vlib.SPEC, d), module, cfg, expect=expect, workers=workers or W, timeout=900)
        caught[cfg] = r.violation
    run.cov["seeded_bugs_caught"] = caught


def drive(binary, test, env, timeout=1700):
    rc, out = vlib.run_driver(binary, test, env=env, timeout=timeout)
    if "DRIVER-DONE" not in out:
        raise vlib.Inconclusive("driver %s died (rc=%s):\n%s" % (test, rc, out[-3000:]))
    st = {}
    for m in re.finditer(r"^DRIVER-STATS (.*)$", out, re.M):
        st.update(json.loads(m.group(1)))
    return st, out


# ----------------------------------------------------------------------------------------------
# C24  atomic marker moves
MK = os.path.join(vlib.SPEC, "Marker")
MK_CONSTS = dict(MaxMoves=99, MaxCrashes=99, MaxRemoveFails=99, MaxFaults=99, BugNoDirSync=False, BugSyncBeforeCreate=False,
                 BugLowestIterWins=False, BugIterLate=False)


def run_c24(run):
    quick = run.tier == "quick"
    if not quick:
        vlib.sany(MK, "Marker")
    if not quick:
        vlib.sany(MK, "MarkerTrace")
    bugs(run, "Marker", "Marker", [("Bug_NoDirSync.cfg", ["Atomic"]), ("Bug_SyncBeforeCreate.cfg", ["Atomic"]),
                                   ("Bug_LowestIterWins.cfg", ["Atomic", "StaleNeverWins", "ObsoleteLower"]),
                                   ("Bug_IterLate.cfg", ["UniqueIter", "Atomic", "StaleNeverWins"])])
    cfg = open(os.path.join(MK, "Marker.cfg")).read()
    if not quick:
        cfg = cfg.replace("MaxMoves = 3", "MaxMoves = 5").replace("MaxCrashes = 2", "MaxCrashes = 4").replace(
            "MaxRemoveFails = 1", "MaxRemoveFails = 2").replace("MaxFaults = 1", "MaxFaults = 2")
    mm = tuple(re.search(r"%s = (\d+)" % k, cfg).group(1) for k in ("MaxMoves", "MaxCrashes", "MaxRemoveFails", "MaxFaults"))
    design(run, "Marker", "Marker", "MarkerRun.cfg", "Marker(MaxMoves=%s,MaxCrashes=%s,MaxRemoveFails=%s,MaxFaults=%s) exhaustive; injected errors at "
           "Create (file made or not) / file Sync / Close / Remove / directory Sync, retries with the same and another value, re-locates; "
           "Atomic is evaluated over every crash state (every subset of unsynced entries) of every reachable state" % mm,
           extra_files={"MarkerRun.cfg": cfg.encode()},
           must_cover=["DoMove", "Create", "RemoveOld", "DoRemoveOldFail", "SyncDir", "RetMove", "DoRORemove", "DoCrash",
                       "DoFault", "CloseAfterErr", "RetMoveErr", "Relocate"])
    binp = vlib.build_driver("vfs/atomicfs", name="proto_atomicfs" + SFX)
    out = vlib.scratch("verif.mk.")
    env = dict(VERIF_OUT=out, VERIF_SEED=str(run.seed))
    env.update(dict(VERIF_MOVES="3", VERIF_LEN="4", VERIF_CRASHES="2", VERIF_FAULTS="1") if quick else
               dict(VERIF_MOVES="4", VERIF_LEN="6", VERIF_CRASHES="3", VERIF_FAULTS="1"))
    is_start = lambda l: l.startswith('{"crashesleft"') or '"op":"start"' in l
    extra_evals = 0
    if not quick:
        # second pass: two injected errors per script (a failed retry, a failure after a failure), smaller bounds
        out2 = vlib.scratch("verif.mk2.")
        st2, _ = drive(binp, "TestVProtoMarker", dict(env, VERIF_OUT=out2, VERIF_MOVES="3", VERIF_LEN="5", VERIF_CRASHES="2", VERIF_FAULTS="2"))
        p2 = os.path.join(out2, "marker.ndjson")
        two_stage(run, MK, "MarkerTrace", MK_CONSTS, p2, ("crashread", "liveread", "relocate", "start"), "C24-2faults", is_start)
        run.cov["driver_two_faults_pass"] = st2
        run.traces += st2.get("scripts", 0)
        extra_evals = st2.get("clones", 0)
        os.remove(p2)
    st, _ = drive(binp, "TestVProtoMarker", env)
    path = os.path.join(out, "marker.ndjson")
    res = two_stage(run, MK, "MarkerTrace", MK_CONSTS, path, ("crashread", "liveread", "relocate", "start"), "C24", is_start)
    fi = st.get("faults_injected", {})
    if not run.violations and (any(fi.get("M!" + k, 0) < 1 for k in ("create", "createlost", "syncfile", "close", "remove", "syncdir"))
                               or st.get("retry_steps_other_value", 0) < 1 or st.get("retry_steps_same_value", 0) < 1):
        # counted on what the driver injected / scripted, not on how the code under test reacted
        raise vlib.Inconclusive("vacuous marker workload (an error kind or a retry was never scripted): %s" % st)
    lines = open(path).read().splitlines()
    # evidence
    evals, distinct, ncalls, hdr = 0, set(), 0, None
    for l in lines:
        e = json.loads(l)
        if e["op"] == "start":
            hdr, ncalls = e, 0
        elif e["op"] in ("call", "relocate"):
            ncalls += 1
        elif e["op"] in ("crashread", "liveread"):
            evals += 1
            if e["op"] == "crashread" and e["unsynced"]:
                distinct.add((json.dumps(hdr["files"]), " ".join(hdr["script"][:ncalls]), e["n"], json.dumps(e["keep"])))
    run.traces += st.get("scripts", 0)
    run.cov["evaluations"] = evals + extra_evals
    run.cov["distinct_nontrivial"] = len(distinct)
    run.cov["rule"] = ("evaluation = one ReadMarker result + directory listing on a crash clone (after FS op n, survival subset keep) or on the "
                       "live directory between calls, asserted by TLC (MarkerTrace) to be - for every listing order - the value of the last Move "
                       "that returned nil, of a Move that returned an error since, or the in-flight value; non-trivial = the "
                       "clone was taken while at least one directory entry was unsynced; distinct by (start directory, script prefix, op "
                       "index, survival subset). The driver enumerates ALL scripts over Move (fresh value / retry of a failed Move with the same "
                       "value) / RemoveObsolete / re-LocateMarker with <= VERIF_FAULTS injected errors (Create with and without the file made, "
                       "file Sync, Close, Remove, directory Sync = panic) within the bounds, ALL op indices and ALL subsets; every clone is "
                       "also a new start directory.")
    run.cov["driver"] = st
    run.cov["exhaustive"] = True
    run.cov["strict_structural_match"] = res["strict_ok"]
    if not res["violated"]:
        # binding demonstration on the first few scripts
        k = [i for i, l in enumerate(lines) if is_start(l)]
        head = lines[:k[3]] if len(k) > 3 else lines
        c = dict(MK_CONSTS, Strict=False)
        ci = [i for i, l in enumerate(head) if '"op":"crashread"' in l and '"unsynced":[[' in l][2]

        # make sure the corrupted value is outside {old, new}
        def corrupt2(ls):
            e = json.loads(ls[ci]); e["res"] = 77; ls[ci] = json.dumps(e); return ls, ci
        demo_reject(MK, "MarkerTrace", c, head, corrupt2, "crashread result replaced")
        ri = [i for i, l in enumerate(head) if '"op":"ret"' in l and '"what":"move"' in l][0]

        def drop(ls):
            del ls[ri]
            return ls, ri
        demo_reject(MK, "MarkerTrace", c, head, drop, "ret(move) event dropped", exact=False)
        si = [i for i, l in enumerate(head) if '"kind":"syncdir"' in l][0]

        def dropfs(ls):
            del ls[si]
            return ls, si
        if res["strict_ok"]:
            demo_reject(MK, "MarkerTrace", dict(MK_CONSTS, Strict=True), head, dropfs, "fs syncdir event dropped (Strict)", exact=False)
        run.cov["binding_demo"] = ("a crash-clone ReadMarker result replaced, a ret(move) event dropped (observable-only mode) and a "
                                   "dropped syncdir event (Strict mode) were each rejected by TLC")
    for l in lines[:400]:
        e = json.loads(l)
        if e["op"] == "crashread" and len(e["unsynced"]) >= 1 and e["keep"]:
            run.sample(e, cap=4)
    run.assumptions += [
        "crash model = vfs.MemFS crash clones (children' = syncedChildren + any subset of unsynced entries; unsynced removals never take effect); "
        "removal-order changes are invisible under this model (DESIGN Appendix A)",
        "marker files are empty, so no file-data survival choices exist; one marker per directory in the driver",
        "injected errors: a failing op has no effect on the filesystem except the 'createlost' Create (file made, error returned); a failing "
        "Close did close the file; after a directory Sync error Move panics and the marker is not used again (crash clones only)",
        "a re-locate without a crash decides nothing: values of failed Moves stay possible until the next Move that returns nil",
    ]


# ----------------------------------------------------------------------------------------------
# state graph -> schedules (mode C)
_RE_EDGE = re.compile(r'^(-?\d+) -> (-?\d+) \[label="([^"]*)"')
_RE_NODE = re.compile(r'^(-?\d+) \[label="((?:[^"\\]|\\.)*)"')


def load_graph(dot_path):
    """TLC -dump dot,actionlabels -> (init, {node: [(label, succ)...]}, {node: state text})"""
    succ, text, init = {}, {}, None
    for l in open(dot_path):
        m = _RE_EDGE.match(l)
        if m:
            a, b, lab = m.group(1), m.group(2), m.group(3)
            if a != b or True:
                succ.setdefault(a, []).append((lab, b))
                succ.setdefault(b, [])
            continue
        m = _RE_NODE.match(l)
        if m:
            text[m.group(1)] = m.group(2)
            succ.setdefault(m.group(1), [])
            if "style = filled" in l and init is None:
                init = m.group(1)
    for k in succ:
        succ[k] = sorted(set(x for x in succ[k] if x[1] != k))
    return init, succ, text


def count_paths(init, succ):
    memo = {}

    def cnt(n):
        if n in memo:
            return memo[n]
        memo[n] = -1  # cycle guard
        out = succ[n]
        c = 1 if not out else 0
        for _, b in out:
            x = cnt(b)
            if x < 0:
                raise vlib.Inconclusive("state graph has a cycle; cannot enumerate maximal paths")
            c += x
        memo[n] = c
        return c
    import sys
    sys.setrecursionlimit(100000)
    return cnt(init), memo


def all_paths(init, succ, limit=2000000):
    res, stack = [], [(init, [])]
    while stack:
        n, path = stack.pop()
        out = succ[n]
        if not out:
            res.append(path)
            if len(res) > limit:
                raise vlib.Inconclusive("too many maximal paths")
            continue
        for lab, b in reversed(out):
            stack.append((b, path + [lab]))
    return res


def sample_paths(init, succ, memo, k, rng):
    """k maximal paths drawn uniformly (by path counts), distinct"""
    seen, res = set(), []
    tries = 0
    while len(res) < k and tries < 20 * k:
        tries += 1
        n, path = init, []
        while succ[n]:
            out = succ[n]
            ws = [memo[b] for _, b in out]
            lab, n = rng.choices(out, weights=ws)[0]
            path.append(lab)
        t = tuple(path)
        if t not in seen:
            seen.add(t)
            res.append(path)
    return res


def edge_cover(init, succ, rng):
    """maximal paths that together traverse every edge of the graph (greedy)"""
    uncovered = set((a, lab, b) for a in succ for lab, b in succ[a])
    # reach[n] = some path init -> n
    pre = {init: []}
    order = [init]
    for n in order:
        for lab, b in succ[n]:
            if b not in pre:
                pre[b] = pre[n] + [(n, lab, b)]
                order.append(b)
    res = []
    while uncovered:
        a, lab, b = next(iter(uncovered))
        path = pre[a] + [(a, lab, b)]
        n = b
        while succ[n]:
            cand = [(l2, b2) for l2, b2 in succ[n] if (n, l2, b2) in uncovered] or succ[n]
            l2, b2 = cand[rng.randrange(len(cand))]
            path.append((n, l2, b2))
            n = b2
        for e in path:
            uncovered.discard(e)
        res.append([e[1] for e in path])
    return res


def parse_label(lab):
    m = re.match(r"(\w+)\((.*)\)$", lab)
    if not m:
        return [lab, -1]
    a = m.group(2).strip().strip('\\"')
    try:
        return [m.group(1), int(a)]
    except ValueError:
        return [m.group(1), a]


# ----------------------------------------------------------------------------------------------
# C41  shared objects
SO = os.path.join(vlib.SPEC, "SharedObj")


def run_c41(run):
    quick = run.tier == "quick"
    rng = random.Random(run.seed)
    if not quick:
        vlib.sany(SO, "SharedObj")
    if not quick:
        vlib.sany(SO, "SharedObjTrace")
    bugs(run, "SharedObj", "SharedObj", [("Bug_CheckBeforeCreateRef.cfg", ["Safe"]), ("Bug_DeleteWithoutList.cfg", ["Safe", "DeleteOnlyUnreferenced"]),
                                         ("Bug_DropCloseError.cfg", ["Safe", "DeleteOnlyUnreferenced"])])
    binp = vlib.build_driver("objstorage/objstorageprovider", name="proto_objprovider" + SFX)
    total_forced = total_paths = 0
    any_drift = False
    violated = False
    results = {}
    for n in (3, 2):
        wd = vlib.scratch("verif.so.")
        dot = os.path.join(wd, "graph.dot")
        cfgname = "SharedObj.cfg" if n == 3 else "SharedObj2.cfg"
        r = vlib.tlc(SO, "SharedObj", cfgname, workers=1, timeout=900, coverage=True, dump_dot=dot, workdir=wd)
        if not r.ok:
            raise vlib.Inconclusive("SharedObj design run failed: %s\n%s" % (r.violation, r.out[-2000:]))
        mf = int(re.search(r"MaxFaults = (\d+)", open(os.path.join(SO, cfgname)).read()).group(1))
        run.add_design("SharedObj(N=%d chained providers, <= %d failing remote operations) exhaustive + state graph dump" % (n, mf), r)
        if n == 3:
            for a in ("CCreateObj", "CCreateRef", "GetBacking", "ACreateRef", "ACheck", "RDelRef", "RList", "RDelObj",
                      "FailCreate", "FailWrite", "FailClose", "Fail"):
                if r.coverage.get(a, (0, 0))[1] == 0:
                    raise vlib.Inconclusive("vacuous SharedObj run: %s never taken" % a)
        init, succ, text = load_graph(dot)
        if init is None:
            raise vlib.Inconclusive("no initial state in the dot dump")
        npaths, memo = count_paths(init, succ)
        nedges = sum(len(v) for v in succ.values())
        if npaths > (1500 if quick else 60000):
            paths = edge_cover(init, succ, rng)
            ncover = len(paths)
            have = set(tuple(p) for p in paths)
            for p in sample_paths(init, succ, memo, (400 if n == 3 else 200) if quick else 30000, rng):
                if tuple(p) not in have:
                    paths.append(p)
            sel = "greedy cover of every edge of the state graph (%d paths) + seeded uniform sample" % ncover
        else:
            paths = all_paths(init, succ)
            sel = "all maximal paths"
        sf = os.path.join(wd, "schedules.jsonl")
        with open(sf, "w") as o:
            for p in paths:
                o.write(json.dumps([parse_label(x) for x in p]) + "\n")
        out = vlib.scratch("verif.sot.")
        env = dict(VERIF_OUT=out, VERIF_N=str(n), VERIF_SEED=str(run.seed), VERIF_SCHEDULES=sf,
                   VERIF_EXPLORE=str((1500 if quick else 20000) if n == 3 else (500 if quick else 5000)))
        st, _ = drive(binp, "TestVProtoSharedObj", env)
        consts = dict(N=n, MaxFaults=99, BugCheckBeforeCreateRef=False, BugDeleteWithoutList=False, BugDropCloseError=False)
        is_start = lambda l: '"op":"start"' in l
        fpath, epath = os.path.join(out, "forced.ndjson"), os.path.join(out, "explore.ndjson")
        rf = two_stage(run, SO, "SharedObjTrace", consts, fpath, ("obs",), "C41-forced-N%d" % n, is_start)
        re_ = two_stage(run, SO, "SharedObjTrace", consts, epath, ("obs",), "C41-explore-N%d" % n, is_start)
        if rf["drift"] or re_["drift"]:
            any_drift = True
        if (rf["drift"] or re_["drift"]) and not (rf["violated"] or re_["violated"]):
            # structural mismatch: the forced schedules no longer bind; widen the exploration (DESIGN 4)
            env2 = dict(env, VERIF_SCHEDULES="", VERIF_EXPLORE=str(6000 if quick else 60000), VERIF_SEED=str(run.seed + 7919))
            out2 = vlib.scratch("verif.sot2.")
            env2["VERIF_OUT"] = out2
            st2, _ = drive(binp, "TestVProtoSharedObj", env2)
            r2 = two_stage(run, SO, "SharedObjTrace", dict(consts), os.path.join(out2, "explore.ndjson"), ("obs",),
                           "C41-fallback-N%d" % n, is_start)
            st["fallback_explore_runs"] = st2["explore_runs"]
            violated = violated or r2["violated"]
        violated = violated or rf["violated"] or re_["violated"]
        if not violated and (st.get("forced_failing_ops", 0) < 10 or st.get("explore_failing_ops", 0) < 10):
            raise vlib.Inconclusive("vacuous shared-object workload (no failing remote operations were injected): %s" % st)
        results[n] = dict(graph_states=len(succ), graph_edges=nedges, maximal_interleavings=npaths, replayed=len(paths),
                          selection=sel, driver=st, forced_strict_ok=rf["strict_ok"], explore_strict_ok=re_["strict_ok"])
        total_forced += st.get("followed", 0)
        total_paths += len(paths)
        run.traces += st.get("forced", 0) + st.get("explore_runs", 0)
        # evidence counts
        ev_obs = dist = 0
        seen = set()
        for pth in (fpath, epath):
            cur = []
            for l in open(pth):
                if '"op":"start"' in l:
                    cur = []
                elif '"op":"step"' in l or '"what":"backing"' in l:
                    e = json.loads(l)
                    cur.append("%s%d" % (e.get("kind", "b")[0:2], e["p"]))
                elif '"op":"obs"' in l:
                    e = json.loads(l)
                    if e["tested"]:
                        ev_obs += len(e["tested"])
                elif '"op":"end"' in l:
                    k = " ".join(cur)
                    if len(set(x[-1] for x in cur)) >= 2 and k not in seen:
                        seen.add(k)
        run.cov["evaluations"] = run.cov.get("evaluations", 0) + ev_obs
        run.cov["distinct_nontrivial"] = run.cov.get("distinct_nontrivial", 0) + len(seen)
        if n == 3 and not violated:
            lines = open(fpath).read().splitlines()
            k = [i for i, l in enumerate(lines) if is_start(l)]
            head = lines[:k[3]] if len(k) > 3 else lines
            oi = [i for i, l in enumerate(head) if '"op":"obs"' in l and '"tested":[0' in l or ('"op":"obs"' in l and '"tested":[1' in l)][1]

            def corrupt(ls):
                e = json.loads(ls[oi]); e["readable"] = []; ls[oi] = json.dumps(e); return ls, oi
            demo_reject(SO, "SharedObjTrace", dict(consts, Strict=False), head, corrupt, "obs.readable emptied")
            if rf["strict_ok"]:
                si = [i for i, l in enumerate(head) if '"op":"step"' in l][1]

                def drop(ls):
                    del ls[si]; return ls, si
                demo_reject(SO, "SharedObjTrace", dict(consts, Strict=True), head, drop, "step event dropped (Strict)", exact=False)

                def corrupt2(ls):
                    e = json.loads(ls[si]); e["refs"] = e["refs"] + [7]; ls[si] = json.dumps(e); return ls, si
                demo_reject(SO, "SharedObjTrace", dict(consts, Strict=True), head, corrupt2, "store contents after a step altered (Strict)")
            run.cov["binding_demo"] = ("an emptied readable set (observable-only), a dropped step event and an altered store listing (Strict) "
                                       "of accepted real traces were each rejected by TLC")
            for l in lines[:60]:
                e = json.loads(l)
                if e["op"] == "step":
                    run.sample(e, cap=5)
    run.cov["per_config"] = results
    run.cov["forced_schedules_bound"] = not any_drift
    run.cov["exhaustive"] = (not any_drift) and all(v["selection"] == "all maximal paths" for v in results.values())
    run.cov["rule"] = ("evaluation = one (provider, step) re-open + re-read of the shared object by a provider whose Create/Attach succeeded and "
                       "that has not called Remove, after one released remote.Storage call, asserted readable by TLC (SharedObjTrace); a run "
                       "is non-trivial when store calls of >= 2 providers were interleaved in it; distinct by the sequence of (call kind, provider). "
                       "Forced runs replay TLC's state graph of SharedObj.tla including its failing operations (every maximal interleaving when "
                       "there are at most 1500 (quick) / 60000 (thorough), else a greedy cover of every edge + a seeded uniform sample); "
                       "exploration releases the gate in seeded random order and makes up to 2 operations of every other run fail.")
    run.assumptions += [
        "one shared object, providers chained (p attaches from p-1's backing), backing handles closed before the race (isProtected would otherwise "
        "turn the race into the documented safe leak)",
        "remote.Storage calls are atomic and linearizable (in-memory store); CreateObject takes effect at Close",
        "a failing remote operation has no effect on the store (transient error before the operation); lost acknowledgements are not modelled",
        "the invariants build tag is off, so OpenForReading does not check the own ref marker",
    ]


# ----------------------------------------------------------------------------------------------
# C30  concurrent skiplist inserts
SK = os.path.join(vlib.SPEC, "Skiplist")
SK_CONSTS = {"K": 3, "Heights <- HeightsDef\n  KeyOf <- KeysDistinct\n  MaxLevel": 2, "Readers": 0, "BugNoHelp": False, "BugPrevBeforeNext": False,
             "Strict": False}


def hooks_present():
    return os.path.exists(os.path.join(vlib.REPO, "internal", "verifhook", "hook_on.go"))


def run_c30(run):
    quick = run.tier == "quick"
    if not quick:
        vlib.sany(SK, "Skiplist")
    if not quick:
        vlib.sany(SK, "SkiplistTrace")
    bugs(run, "Skiplist", "Skiplist", [("Bug_NoHelp.cfg", ["FinalOK"]), ("Bug_PrevBeforeNext.cfg", ["FinalOK", "ReadersSeeOrderedSubset", "NoLoss", "ReaderView"])])
    hk = hooks_present()
    dots = {}
    for cfgname, label, text in (("Skiplist.cfg", "distinct", "Skiplist(K=3 inserters, heights 2,1,2, distinct keys, 2 levels) exhaustive"),
                                 ("SkiplistDup.cfg", "dup", "Skiplist(K=3, keys 1,2,1: duplicate) exhaustive")):
        wd = vlib.scratch("verif.skg.")
        want_dot = hk and not quick   # quick: seeded exploration through the Points, validated Strict; thorough: + forced graph paths
        r = design(run, "Skiplist", "Skiplist", cfgname, text + (" + state graph dump" if want_dot else ""), workdir=wd, heap="8g",
                   dump_dot=(os.path.join(wd, "graph.dot") if want_dot else None),
                   must_cover=["FindLevel", "NewNode", "ReadNP", "ReadPN", "Help", "CasNext", "CasPrev", "Refind"] if label == "distinct" else None)
        if want_dot:
            dots[label] = os.path.join(wd, "graph.dot")
    if not quick:
        design(run, "Skiplist", "Skiplist", "SkiplistReader.cfg", "Skiplist(K=3 + one reader walking level 0 forward then backward) exhaustive")
        design(run, "Skiplist", "Skiplist", "Skiplist4.cfg", "Skiplist(K=4, heights 2,1,2,1, keys 2,1,3,2) exhaustive", timeout=1700, heap="10g")
    binp = vlib.build_driver("internal/arenaskl", name="proto_arenaskl" + SFX)
    out = vlib.scratch("verif.sk.")
    env = dict(VERIF_OUT=out, VERIF_SEED=str(run.seed), VERIF_ROUNDS=str(36 if quick else 900), VERIF_THREADS="6", VERIF_KEYS="120",
               VERIF_READERS="2", VERIF_PROBE_LEN=str(4 if quick else 6))
    st, _ = drive(binp, "TestVProtoSkiplist(Explore|InserterProbe)$", env)
    # ---- concurrent exploration, judged by TLC
    path = os.path.join(out, "skl_explore.ndjson")
    v = _validate(SK, "SkiplistTrace", SK_CONSTS, path, heap="8g")
    lines = open(path).read().splitlines()
    is_start = lambda l: l.startswith('{"list"') or '"op":"adds"' in l
    if not v.accepted:
        ev = v.rejected_line
        seg, s0 = _segment(path, v.hwm, is_start)
        keep = os.path.join(run.outdir, "C30_rejected_round.ndjson")
        open(keep, "w").write("\n".join(seg) + "\n")
        short = {k: (x if not isinstance(x, list) or len(x) < 40 else x[:40] + ["..."]) for k, x in ev.items()} if isinstance(ev, dict) else ev
        run.violation({"kind": "trace-rejected", "module": "SkiplistTrace", "op": ev.get("op") if isinstance(ev, dict) else None},
                      "real concurrent execution rejected by SkiplistTrace at line %d (%s event of the round starting at line %d): %s"
                      % (v.hwm + 1, ev.get("op") if isinstance(ev, dict) else "?", s0 + 1, json.dumps(short)[:500]),
                      replay_obj={"trace_segment": keep, "cmd": "VERIF_SEED=%d python3 /verif/vcheck run C30 --tier %s" % (run.seed, run.tier)})
    # ---- sequential Inserter probe (cached splice): every rejected sequence is reported by TLC
    ppath = os.path.join(out, "skl_probe.ndjson")
    pv = _validate(SK, "SkiplistTrace", SK_CONSTS, ppath)
    if not pv.accepted:
        raise vlib.Inconclusive("probe trace not consumed:\n" + pv.tlc.out[-2000:])
    rej = re.findall(r'<<"PROBE-REJECT", (\d+), "(\w+)">>', pv.tlc.out)
    plines = open(ppath).read().splitlines()
    by_reason = {}
    for pid, reason in rej:
        by_reason.setdefault(reason, []).append(int(pid))
    for reason, ids in sorted(by_reason.items()):
        first = ids[0]
        seg = plines[2 * first:2 * first + 2]
        keep = os.path.join(run.outdir, "C30_probe_%s.ndjson" % reason)
        open(keep, "w").write("\n".join(seg) + "\n")
        run.violation({"kind": "inserter-dup-probe", "reason": reason},
                      "sequential Adds through one Inserter: %d of %d sequences rejected by SkiplistTrace (reason %s: %s); first: %s"
                      % (len(ids), len(plines) // 2, reason,
                         "a repeated Add of a present key returned nil and the key is linked twice" if reason == "dupok" else "list malformed",
                         seg[0][:300]), replay_obj={"trace_segment": keep})
    run.cov["inserter_probe"] = dict(sequences=len(plines) // 2, rejected=len(rej))
    # ---- evidence
    rounds = scans = evals = 0
    nontriv = set()
    for l in lines:
        if '"op":"scan"' in l:
            scans += 1
            evals += 1
        elif '"op":"final"' in l:
            evals += 1
        elif '"op":"adds"' in l:
            rounds += 1
            e = json.loads(l)
            evals += len(e["list"])
            # non-trivial: adds of different threads overlapped in time (start ticket of one inside another's start..tick window)
            a = sorted(e["list"], key=lambda x: x[3])
            ov = sum(1 for i in range(len(a) - 1) if a[i][0] != a[i + 1][0] and a[i + 1][3] < a[i][4] + 1)
            if ov >= 5:
                nontriv.add(vlib.sha(l))
    run.traces += rounds + len(plines) // 2
    run.cov["evaluations"] = evals
    run.cov["distinct_nontrivial"] = len(nontriv)
    run.cov["rule"] = ("evaluation = one Add return code, one concurrent reader traversal, or one quiescent traversal set (Iterator forward/backward + "
                       "every level's next/prev chain) asserted by TLC (SkiplistTrace, built from Skiplist.tla's own QuiescentOK/LevelOK/ReaderOK "
                       "operators); a round is non-trivial when >= 5 Adds of different goroutines overlapped in time (start/completion tickets); "
                       "distinct by content hash")
    run.cov["driver"] = st
    if not run.violations:
        fi = [i for i, l in enumerate(lines) if '"op":"final"' in l][0]

        def corrupt(ls):
            e = json.loads(ls[fi]); b = e["bwd"]; b[3], b[4] = b[4], b[3]; ls[fi] = json.dumps(e); return ls, fi
        head = lines[:fi + 1]
        demo_reject(SK, "SkiplistTrace", SK_CONSTS, head, corrupt, "two neighbours of the backward traversal swapped")

        def dup_ok(ls):
            e = json.loads(ls[0]); x = [a for a in e["list"] if a[2] == 0][0]; x[2] = 1; ls[0] = json.dumps(e); return ls, fi
        if not quick:
            demo_reject(SK, "SkiplistTrace", SK_CONSTS, head, dup_ok, "an ErrRecordExists result turned into nil")
        sis = [i for i, l in enumerate(lines) if l.startswith('{"asc":true') and l.count(",") > 14]
        if sis:
            si = sis[0]

            def unsort(ls):
                e = json.loads(ls[si]); q = e["seq"]; q[2], q[5] = q[5], q[2]; ls[si] = json.dumps(e); return ls, si
            demo_reject(SK, "SkiplistTrace", SK_CONSTS, lines[:si + 1], unsort, "a reader's traversal made unordered")
        run.cov["binding_demo"] = "swapped backward neighbours, a flipped Add result and an unordered reader traversal were each rejected by TLC"
    e0 = json.loads(lines[0])
    run.sample({"round": e0["round"], "testing": e0["testing"], "first_adds[thread,key,res,start,done]": e0["list"][:12]})
    # ---- mode C (forced schedules through internal/verifhook) when the hook package exists
    try:
        c30_forced(run, dots)
    except vlib.Inconclusive as ex:
        if "hooks missing" not in str(ex):
            raise
        run.cov["mode_C_forced_schedules"] = "not run: " + str(ex)
        vlib.log("  C30 mode C not run: %s" % ex)
    run.assumptions += [
        "hook-free binding: interleavings are whatever the Go scheduler produces (6 inserters, 2 readers, the package's own testing yield "
        "points on in every other round); the exhaustive argument is on the model only until the verifhook patch is in /repo",
        "Inserter (cached splice) threads own their keys exclusively in the concurrent rounds; duplicate Adds through an Inserter are "
        "covered by the sequential probe",
        "forward reader traversals must contain every key whose Add returned before the traversal started; backward traversals are only "
        "required to be ordered subsets (prev links may lag)",
    ]


def c30_forced(run, dots):
    """mode C: TLC schedules forced through verifhook Points; exploration with random release order"""
    if not hooks_present():
        raise vlib.Inconclusive("hooks missing: %s/internal/verifhook does not exist (apply /verif/hooks/proto.patch)" % vlib.REPO)
    if "verifhook.Point" not in open(os.path.join(vlib.REPO, "internal", "arenaskl", "skl.go")).read():
        raise vlib.Inconclusive("hooks missing: internal/arenaskl/skl.go has no verifhook.Point calls (apply /verif/hooks/proto.patch)")
    quick = run.tier == "quick"
    rng = random.Random(run.seed)
    hbin = vlib.build_driver("internal/arenaskl", name="proto_arenaskl_hooks" + SFX, tags="verif,verifhooks")
    res = {}
    for cfgname, heights, keys, label in (("Skiplist.cfg", "2,1,2", "1,2,3", "distinct"), ("SkiplistDup.cfg", "2,1,2", "1,2,1", "dup")):
        if quick and label == "dup":
            continue
        sf, paths, sel, npaths, nedges, nstates = "", [], "none (quick tier: exploration only)", 0, 0, 0
        if label in dots:
            dot = dots[label]
            wd = os.path.dirname(dot)
            init, succ, _ = load_graph(dot)
            npaths, memo = count_paths(init, succ)
            nedges, nstates = sum(len(v) for v in succ.values()), len(succ)
            paths = edge_cover(init, succ, rng)
            ncover = len(paths)
            have = set(tuple(p) for p in paths)
            paths += [p for p in sample_paths(init, succ, memo, 15000, rng) if tuple(p) not in have]
            sel = "greedy cover of every edge of the state graph (%d paths) + seeded uniform sample" % ncover
            sf = os.path.join(wd, "schedules.jsonl")
            with open(sf, "w") as o:
                for p in paths:
                    o.write(json.dumps([parse_label(x) for x in p]) + "\n")
            del succ, memo
        out = vlib.scratch("verif.skh.")
        env = dict(VERIF_OUT=out, VERIF_SEED=str(run.seed), VERIF_SK_HEIGHTS=heights, VERIF_SK_KEYS=keys, VERIF_SK_LEVELS="2",
                   VERIF_SCHEDULES=sf, VERIF_EXPLORE=str(1000 if quick else 30000))
        st, _ = drive(hbin, "TestVProtoSkiplistHooks", env)
        consts = dict(SK_CONSTS)
        if label == "dup":
            consts = {k.replace("KeysDistinct", "KeysDup"): v for k, v in consts.items()}
        is_start = lambda l: '"op":"sstart"' in l
        rf = dict(drift=None, violated=False, strict_ok=None)
        if sf:
            rf = two_stage(run, SK, "SkiplistTrace", consts, os.path.join(out, "sklhook_forced.ndjson"), ("final",), "C30-forced-" + label, is_start)
        rx = two_stage(run, SK, "SkiplistTrace", consts, os.path.join(out, "sklhook_explore.ndjson"), ("final",), "C30-hookexplore-" + label, is_start)
        if (rf["drift"] or rx["drift"]) and not (rf["violated"] or rx["violated"]):
            out2 = vlib.scratch("verif.skh2.")
            env2 = dict(env, VERIF_OUT=out2, VERIF_SCHEDULES="", VERIF_EXPLORE=str(5000 if quick else 80000), VERIF_SEED=str(run.seed + 104729))
            st2, _ = drive(hbin, "TestVProtoSkiplistHooks", env2)
            two_stage(run, SK, "SkiplistTrace", consts, os.path.join(out2, "sklhook_explore.ndjson"), ("final",), "C30-hookfallback-" + label, is_start)
            st["fallback_explore_runs"] = st2["hook_explore_runs"]
        run.traces += st["hook_forced"] + st["hook_explore_runs"]
        run.cov["evaluations"] += sum(1 for pth in ("sklhook_forced.ndjson", "sklhook_explore.ndjson") if os.path.exists(os.path.join(out, pth)) for l in open(os.path.join(out, pth)) if '"op":"step"' in l)
        run.cov["distinct_nontrivial"] += st["hook_forced"] + st["hook_explore_distinct_orders"]
        res[label] = dict(graph_states=nstates, graph_edges=nedges, maximal_paths=npaths, replayed=len(paths), selection=sel, driver=st,
                          forced_strict_ok=rf["strict_ok"], explore_strict_ok=rx["strict_ok"])
        if label == "distinct" and rx["strict_ok"] and not run.violations:
            lines = open(os.path.join(out, "sklhook_explore.ndjson")).read().splitlines()
            k = [i for i, l in enumerate(lines) if is_start(l)]
            head = lines[:k[2]]
            si = [i for i, l in enumerate(head) if '"site":"casNext"' in l][0]

            def corrupt(ls):
                e = json.loads(ls[si]); e["fw"][0] = e["fw"][0] + [9]; ls[si] = json.dumps(e); return ls, si
            demo_reject(SK, "SkiplistTrace", dict(consts, Strict=True), head, corrupt, "forward chain after a casNext step altered (Strict)")

            def drop(ls):
                del ls[si]; return ls, si
            if not quick:
                demo_reject(SK, "SkiplistTrace", dict(consts, Strict=True), head, drop, "casNext step dropped (Strict)", exact=False)
            run.cov["binding_demo"] += "; mode C: an altered chain after a forced step and a dropped step were rejected (Strict)"
    run.cov["mode_C_forced_schedules"] = res
    run.cov["rule"] += ("; mode C (verifhook): evaluation = one forced/explored atomic step whose parked site and resulting per-level chains were "
                        "matched against Skiplist.tla by TLC; distinct = distinct schedules")


# ----------------------------------------------------------------------------------------------
# C34  block cache
CA = os.path.join(vlib.SPEC, "Cache")
CA_CONSTS = dict(NK=1, NV=2, Cap=1, MaxHold=1, Readers=3, BugStaleAfterDelete=False, BugGetNoAcquire=False, BugWakeAllOnError=False, BugLeakOnCancel=False, MaxK=12)
CA_OBS = ("get", "rhget", "set", "rel", "del", "evictfile", "closeh", "newh", "reserve", "unreserve", "rhset", "rherr", "readok", "readerr", "stuck", "arrive", "cancel", "rdel")


def run_c34(run):
    quick = run.tier == "quick"
    rng = random.Random(run.seed)
    if not quick:
        vlib.sany(CA, "Cache")
        vlib.sany(CA, "CacheTrace")
    bugs(run, "Cache", "Cache", [("Bug_StaleAfterDelete.cfg", ["HitIsLatest"]), ("Bug_GetNoAcquire.cfg", ["RefsExact", "NoFreeWhileReferenced"]),
                                 ("Bug_WakeAllOnError.cfg", ["SingleFlight"]), ("Bug_LeakOnCancel.cfg", ["NoStaleRead"])])
    cfg = open(os.path.join(CA, "Cache.cfg")).read()
    if not quick:
        cfg = cfg.replace("NK = 3", "NK = 4").replace("NV = 3", "NV = 4").replace("Readers = 2", "Readers = 3")
    lab = "Cache(%s) exhaustive" % ", ".join(re.findall(r"(?:NK|NV|Cap|MaxHold|Readers) = \d+", cfg))
    design(run, "Cache", "Cache", "CacheRun.cfg", lab, extra_files={"CacheRun.cfg": cfg.encode()}, heap="10g")
    wd = vlib.scratch("verif.cag.")
    dot = os.path.join(wd, "graph.dot")
    r = design(run, "Cache", "Cache", "CacheRS.cfg", "Cache read shard alone (3 readers, <= 2 read errors / cancelled waits, Delete of the block) exhaustive + state graph dump",
               workdir=wd, dump_dot=dot, workers=1, must_cover=["Arrive", "ReadOK", "ReadErr", "Cancel", "Delete"])
    init, succ, _ = load_graph(dot)
    npaths, memo = count_paths(init, succ)
    paths = all_paths(init, succ) if npaths <= 5000 else sample_paths(init, succ, memo, 3000, rng)
    sf = os.path.join(wd, "schedules.jsonl")
    with open(sf, "w") as o:
        for p in paths:
            o.write(json.dumps([parse_label(x) for x in p]) + "\n")
    binp = vlib.build_driver("internal/cache", name="proto_cache" + SFX)
    out = vlib.scratch("verif.ca.")
    env = dict(VERIF_OUT=out, VERIF_SEED=str(run.seed), VERIF_SEQS=str(60 if quick else 1500), VERIF_STEPS="120", VERIF_SCHEDULES=sf, VERIF_READERS="3")
    spath, rpath = os.path.join(out, "cache_seq.ndjson"), os.path.join(out, "cache_rs.ndjson")
    died = None
    try:
        st, _ = drive(binp, "TestVProtoCacheSeq$", env)
    except vlib.Inconclusive as ex:
        # the process died (e.g. use-after-free): what it logged before dying is still judged
        died, st = str(ex), {}
        if not os.path.exists(spath) or os.path.getsize(spath) == 0:
            raise
        ls = open(spath).read().splitlines()
        if ls and not ls[-1].endswith("}"):
            ls = ls[:-1]
        open(spath, "w").write("\n".join(ls) + "\n")
    r1 = two_stage(run, CA, "CacheTrace", CA_CONSTS, spath, CA_OBS, "C34-seq", lambda l: '"op":"newcache"' in l)
    run.cov["ops_leaving_size_over_capacity"] = OVERCAP[0]
    if OVERCAP[0] > 0:
        run.violation({"kind": "size-over-capacity-after-insert"},
                      "%d completed operations left the accounted size above the capacity with no reservation outstanding "
                      "(always by less than the last inserted value, which TLC enforces)" % OVERCAP[0])
    if died and not [v for v in run.violations]:
        raise vlib.Inconclusive("cache driver died and the part of the trace it logged was accepted:\n" + died[-1500:])
    if not died and not run.violations and (st.get("seq_hits", 0) < 20 or st.get("seq_evictions_observed", 0) < 5
                                            or st.get("seq_cancelled_ctx_while_turn_held", 0) < 3 or st.get("seq_read_turns_kept", 0) < 3):
        raise vlib.Inconclusive("vacuous cache workload: %s" % st)
    r2 = dict(strict_ok=None, drift=None, violated=False)
    if not died:
        st2, _ = drive(binp, "TestVProtoCacheRS$", env, timeout=400)
        st.update(st2)
        r2 = two_stage(run, CA, "CacheTrace", CA_CONSTS, rpath, CA_OBS, "C34-readshard", lambda l: '"op":"rstart"' in l)
    run.traces += st.get("seq_sequences", 0) + st.get("rs_schedules", 0)
    lines = open(spath).read().splitlines()
    rlines = open(rpath).read().splitlines() if os.path.exists(rpath) else []
    run.cov["evaluations"] = len(lines) + sum(1 for l in rlines if '"rets"' in l)
    dist = set()
    cur = []
    for l in lines:
        if '"op":"newcache"' in l:
            if len(cur) >= 30:
                dist.add(vlib.sha("".join(cur)))
            cur = []
        else:
            cur.append(l[:40])
    if len(cur) >= 30:
        dist.add(vlib.sha("".join(cur)))
    run.cov["distinct_nontrivial"] = len(dist) + st.get("rs_followed", 0)
    run.cov["rule"] = ("evaluation = one cache op whose result, the Peek of every key, Value.refs() of every held value and Size()/MaxSize() were "
                       "asserted by TLC (CacheTrace), or one read-shard scheduler action whose released readers/outcomes were asserted; non-trivial = an "
                       "op sequence of >= 30 ops (distinct by content) or a complete read-shard schedule of TLC's state graph followed by the real readers")
    run.cov["driver"] = st
    run.cov["read_shard"] = dict(graph_states=len(succ), maximal_schedules=npaths, replayed=len(paths), strict_ok=r2["strict_ok"])
    run.cov["seq_strict_ok"] = r1["strict_ok"]
    if not run.violations:
        gi = [i for i, l in enumerate(lines[:400]) if '"op":"get"' in l and '"res":0' not in l][0]

        def corrupt(ls):
            e = json.loads(ls[gi]); e["res"] = e["res"] + 50; ls[gi] = json.dumps(e); return ls, gi
        demo_reject(CA, "CacheTrace", dict(CA_CONSTS, Strict=False), lines[:gi + 1], corrupt, "Get result replaced by another value id")
        oi = [i for i, l in enumerate(rlines) if '"op":"readok"' in l and l.count("],[") >= 1][0]

        def corrupt2(ls):
            e = json.loads(ls[oi]); e["rets"][-1][1] = 9; ls[oi] = json.dumps(e); return ls, oi
        demo_reject(CA, "CacheTrace", dict(CA_CONSTS, Strict=False), rlines[:oi + 1], corrupt2, "a waiter's received value altered")
        run.cov["binding_demo"] = "a replaced Get result and an altered waiter value of accepted real traces were each rejected by TLC"
    for l in lines[2:8]:
        run.sample(json.loads(l))
    run.assumptions += [
        "one shard, capacity 3-5 KB, values of 0.7-1.6 KB; eviction policy is free (any entry may vanish after any op, none may appear)",
        "a closed handle cannot be queried through the API; the check is that a NEW handle never sees entries of another handle instance",
        "freed-while-referenced is observed through Value.refs() of values the driver legitimately holds (refs >= callers' + cache's), plus a content canary",
        "read-shard schedules are forced with the block read as the gate; a reader that should block is recognised through the read entry's refCount (in-package)",
    ]


# ----------------------------------------------------------------------------------------------
NOTE = ("Trusted: TLC, the TLA+ module as the statement of the protocol, the Go driver's recording. Bounded as stated in the evidence "
        "(constants of the exhaustive configs; driver bounds).")


def REGISTER(reg):
    reg("C24", "Atomic marker moves", run_c24,
        "Marker.tla (Move/RemoveObsolete/Locate over a CrashFS directory model, with an injected I/O error at every filesystem step of Move - "
        "Create with and without the file coming into existence, file Sync, Close, Remove, directory Sync - retries of a failed Move with the "
        "same and another value, and re-locates) is checked exhaustively with Atomic evaluated over every crash subset and every order of the "
        "directory listing; the real atomicfs.Marker over a crashable MemFS is driven through every script within the bounds (same faults, "
        "injected through the wrapped vfs.FS), a crash clone is taken after every filesystem op for every subset of unsynced entries "
        "(deterministic CrashCloneWith), and TLC validates every (op index, survival subset, ReadMarker result, directory listing) against the spec.", NOTE,
        "TLA+ (Marker.tla) + TLC exhaustive + exhaustive crash-clone and single-fault enumeration on the real code validated by TLC (MarkerTrace)", "DESIGN 6/C24",
        engine="proto")
    reg("C41", "Shared objects deleted only when unreferenced", run_c41,
        "SharedObj.tla (one action per remote.Storage operation of Create/Finish, AttachRemoteObjects and Remove = sharedUnref, each of which may "
        "also FAIL - uploads at CreateObject, Write or Close - with Remove retried after an error) is checked exhaustively for 2 and 3 chained "
        "providers; TLC's state graph is dumped and its interleavings, including the failing operations, are forced, operation by operation, onto "
        "real providers sharing one in-memory remote.Storage behind a blocking gate (a cover of every edge of the graph + a seeded sample; every "
        "maximal interleaving when there are few enough); TLC validates every step (store contents = spec state, a failed operation is reported "
        "by the API) and, after every step, that every provider whose Create/Attach succeeded can still read the object and has its own "
        "reference marker in the store. Structural mismatch = DRIFT -> exploration with random gate order and random failures decides.", NOTE,
        "TLA+ (SharedObj.tla) + TLC exhaustive + forced interleavings from TLC's state graph on real code (gate on remote.Storage) + TLC trace validation",
        "DESIGN 6/C41", engine="proto")


    reg("C30", "Concurrent skiplist inserts", run_c30,
        "Skiplist.tla (one action per atomic step of findSplice/addInternal, CAS next then prev with helping, list height) is checked "
        "exhaustively for 3-4 inserters incl. duplicates and a reader; real goroutines (6 inserters with overlapping key sets, 2 readers) run "
        "on the real skiplist and every return code, reader traversal and the quiescent per-level forward/backward chains are validated by TLC "
        "against the spec's quiescent/ordered-subset operators; a sequential Inserter probe covers the cached splice. With internal/verifhook "
        "present, TLC schedules are additionally forced step by step.", NOTE,
        "TLA+ (Skiplist.tla) + TLC exhaustive + TLC validation of recorded real concurrent executions (+ forced schedules via verifhook when present)",
        "DESIGN 6/C30", engine="proto")


    reg("C34", "Block cache", run_c34,
        "Cache.tla (Get/Set/Delete/EvictFile/free eviction, Value refcounts, read-shard single flight with the read entry's reference count, "
        "waiters whose context is cancelled, invalidation between readers) is checked exhaustively; seeded random op sequences run on a real "
        "one-shard cache of a few values - including read turns kept over later ops, callers with a cancelled context meanwhile, then "
        "SetReadValue/SetReadError, Delete/EvictFile - and after every op the result, the Peek of every key, Value.refs() of every held value "
        "and Size()/MaxSize() are validated by TLC; every schedule of the read-shard state graph (3 readers, <=2 failed reads / cancelled waits, "
        "Delete of the block) is forced onto real GetWithReadHandle callers with the block read as the gate and the released readers/outcomes "
        "validated by TLC.", NOTE,
        "TLA+ (Cache.tla) + TLC exhaustive + TLC validation of recorded op sequences + forced read-shard schedules from TLC's state graph",
        "DESIGN 6/C34", engine="proto")


SPEC_MODULES = [("Cache", "Cache"), ("Cache", "CacheTrace"), ("Skiplist", "Skiplist"), ("Skiplist", "SkiplistTrace"), ("Marker", "Marker"), ("Marker", "MarkerTrace"), ("SharedObj", "SharedObj"), ("SharedObj", "SharedObjTrace")]
