"""Commit engine: the commit pipeline (commit.go, db.go commitWrite/commitApply/newIter/getInternal).
  design : TLC exhaustive on spec/Commit/Commit.tla (Exh_*.cfg quick, Thor_*.cfg thorough, Live_PP.cfg liveness),
           seeded bugs Bug_*.cfg, the spec-level lead Lead_ElideUnpublished.cfg
  mode B : in-package stress driver (harness/overlay/zz_verif_commit_stress_test.go) -> NDJSON traces ->
           TLC CommitTrace.tla; includes a hook-free seeded random-yield exploration inside the pipeline
           (commitEnv.write / commitEnv.apply are function fields and are wrapped in-package)
  mode C : forced TLC schedules through verifhook.Point, only when /repo has internal/verifhook with the
           commit Points (hooks/commit.patch); absent -> noted in the evidence, the checks above still run
  C42    : the same driver built with -race, richer vocabulary (set/delete/merge, flush, compact, checkpoint,
           metrics, ingest), watchdog, quiescent barriers compared with the sequential fold in seqnum order;
           Locks.tla checked by TLC for deadlock freedom
Serves C06, C07, C42."""
import glob, json, os, random, re, shutil, time
from concurrent.futures import ThreadPoolExecutor
import vlib

SPECDIR = os.path.join(vlib.SPEC, "Commit")
SPEC_MODULES = [("Commit", "Commit"), ("Commit", "CommitTrace"), ("Commit", "Locks")]

ALL_CLAUSES = ["seq", "wal", "vis", "atomic", "nofuture", "ryw", "snapexact"]
CLAUSES = {
    # C06: whole-or-nothing, superset of what had returned, nothing above the reader's seqnum
    "C06": ["atomic", "nofuture", "ryw", "snapexact"],
    # C07: read-your-writes, unique contiguous ranges in WAL order, monotone visibility that never covers an unapplied batch
    "C07": ["seq", "wal", "vis", "ryw", "nofuture", "snapexact"],
    "C42": ALL_CLAUSES,
}
# (cfg, workers, what it is)
QUICK_EXH = {
    "C06": [("Exh_PL_reader", 6), ("Exh_PP_reader", 4), ("Exh_PA_reader", 2), ("Exh_L2_reader", 2)],
    "C07": [("Exh_2x2_core", 6), ("Exh_PP_reader", 4), ("Exh_PA_reader", 2), ("Exh_L2_reader", 2)],
}
THOR_EXH = [("Exh_2x2_core", 4), ("Exh_PL_reader", 4), ("Exh_PLA", 8), ("Thor_PPP", 8)]
BUGS = {
    "C06": {"Bug_PublishEarly": ["PublishedImpliesApplied", "ReadAtomic"],
            "Bug_DequeueUnapplied": ["PublishedImpliesApplied", "ReadAtomic"],
            "Bug_FbBeforeSeq": ["NoFuture", "PublishedImpliesApplied"],
            "Bug_ReaderSeqFirst": ["ReadYourWrites", "ReadAtomic"],
            "Bug_FlushIgnoresRefs": ["FlushedImpliesApplied"]},
    "C07": {"Bug_StoreNotCAS": ["VisMonotone", "ReturnedVisible"],
            "Bug_EnqOutsideMu": ["QueueSafe", "SeqContiguous", "deadlock"],
            "Bug_AllocNoWait": ["AllocSeesPrior"],
            "Bug_PublishEarly": ["PublishedImpliesApplied", "ReadAtomic"],
            "Bug_ReaderSeqFirst": ["ReadYourWrites", "ReadAtomic"]},
}
EXH_DOC = {
    "Exh_2x2_core": "2 plain committers x 2 commits, Q=3 (sem 2), K=2 keys/batch, memtable holds 2 batches, no reader",
    "Exh_PP_reader": "2 plain committers x 1, Q=3, K=2, memtable holds 1 batch (rotation), flush+compaction, 1 two-step reader",
    "Exh_PL_reader": "plain + large(flushable) committer x 1, Q=3, K=2, flush+compaction, 1 two-step reader",
    "Exh_PA_reader": "plain + AllocateSeqNum(ingest) committer x 1, Q=3, K=2, 1 two-step reader",
    "Exh_L2_reader": "1 large committer x 2 commits (second overwrites the first), flush+compaction, 1 reader",
    "Exh_PLA": "plain + large + AllocateSeqNum x 1, Q=4, K=2, no reader",
    "Thor_2x2_reader": "2 plain x 2 commits, Q=3, K=2, memtable holds 1 batch (rotations), flush+compaction, 1 two-step reader",
    "Thor_PLA_reader": "plain + large + alloc x 1, Q=4, K=2, 1 reader",
    "Thor_PPP": "3 plain x 1, Q=4, K=2, no reader",
    "Thor_PL2_reader": "plain + large x 2 commits, Q=3, K=2, 1 reader",
}


# --------------------------------------------------------------------------
# design level
def _tlc_job(job):
    kind, cfg, workers, expect, kw = job
    r = vlib.tlc(SPECDIR, kw.pop("module", "Commit"), cfg + ".cfg", workers=workers, **kw)
    return kind, cfg, expect, r


def design(run, exh, bugs, extra=()):
    """runs the exhaustive configs and the seeded-bug configs concurrently; every Bug must be caught"""
    for d, m in SPEC_MODULES:
        if os.path.exists(os.path.join(vlib.SPEC, d, m + ".tla")):
            vlib.sany(os.path.join(vlib.SPEC, d), m)
    jobs = [("exh", c, w, None, dict(timeout=2400 if run.tier == "thorough" else 600, heap="8g")) for c, w in exh]
    jobs += [("bug", c, 2, e, dict(timeout=600, heap="2g")) for c, e in bugs.items()]
    jobs += list(extra)
    t0 = time.time()
    with ThreadPoolExecutor(max_workers=5 if run.tier == "quick" else 3) as ex:
        results = list(ex.map(_tlc_job, jobs))
    caught = {}
    other = {}
    for kind, cfg, expect, r in results:
        if r.timed_out:
            raise vlib.Inconclusive("TLC timed out on Commit/%s" % cfg)
        if kind == "exh":
            if not r.ok:
                raise vlib.Inconclusive("Commit/%s: TLC reports %s on the unmodified spec (a spec-level lead, not a verdict)\n%s"
                                        % (cfg, r.violation, "\n".join(r.out.splitlines()[-40:])))
            run.add_design("Commit/%s [%s]" % (cfg, EXH_DOC.get(cfg, "")), r)
        elif kind == "bug":
            if r.violation is None:
                raise vlib.Inconclusive("seeded bug Commit/%s was NOT caught by TLC\n%s" % (cfg, r.out[-1500:]))
            if expect and r.violation not in expect:
                raise vlib.Inconclusive("seeded bug Commit/%s violated %s, expected one of %s" % (cfg, r.violation, expect))
            caught[cfg] = "%s after %d states" % (r.violation, r.generated)
            run.transitions += r.generated
        else:
            other[cfg] = r
    run.cov["seeded_bugs_caught"] = caught
    run.cov["design_wall_s"] = round(time.time() - t0, 1)
    return other


# --------------------------------------------------------------------------
# mode B
def hooks_present():
    p = os.path.join(vlib.REPO, "internal", "verifhook", "hook_on.go")
    if not os.path.exists(p):
        return False
    try:
        src = open(os.path.join(vlib.REPO, "commit.go")).read()
    except OSError:
        return False
    return "verifhook.Point(" in src


_built = {}


def driver(race=False):
    if race not in _built:
        _built[race] = vlib.build_driver(".", name="root_commit", race=race, timeout=2400)
    return _built[race]


def stress(run, outdir, plans, race=False, rich=False, timeout=1500):
    """plans: list of dicts of driver env overrides; one driver process per plan"""
    binp = driver(race)
    outs = []
    for i, pl in enumerate(plans):
        env = dict(VERIF_OUT=outdir, VERIF_SEED=str(run.seed * 100 + i), VERIF_RICH="1" if rich else "0")
        env.update({k: str(v) for k, v in pl.items()})
        rc, out = vlib.run_driver(binp, "TestVCommitStress", env=env, timeout=timeout)
        outs.append((rc, out, env))
    return outs


def load(path):
    return [json.loads(l) for l in open(path) if l.strip()]


class Model:
    """Python mirror of CommitTrace's bookkeeping, for DIAGNOSTICS and statistics only (TLC takes the verdict)."""

    def __init__(self, evs):
        self.meta = evs[0]
        G, K = self.meta["G"], self.meta["K"]
        self.gc = [[] for _ in range(G)]
        self.hist = [[[[] for _ in range(K)]] for _ in range(G)]
        self.allc = []
        for e in evs:
            if e.get("op") != "commit":
                continue
            c = dict(seq=e["seq"], end=e["seq"] + e["cnt"], ret=e["ret"], start=e["start"], tok=e["tok"], kind=e["kind"])
            self.allc.append(c)
            g = e["grp"]
            st = self.hist[g][-1]
            ns = []
            for j, op in enumerate(e["ops"]):
                ns.append([e["tok"]] if op == 1 else [] if op == 2 else st[j] + [e["tok"]])
            self.gc[g].append(c)
            self.hist[g].append(ns)

    def window(self, g, begin, s):
        hi = sum(1 for c in self.gc[g] if c["end"] <= s)
        lo = max([i + 1 for i, c in enumerate(self.gc[g]) if c["ret"] < begin] or [0])
        return lo, hi

    def classify(self, e):
        """which clause and shape a rejected read shows"""
        if any(c["ret"] < e["begin"] and c["end"] > e["rseq"] for c in self.allc):
            return "ryw", "rseq-below-returned"
        groups = [e["grp"]] if e["kind"] == "get" else range(self.meta["G"])
        for g in groups:
            lo, hi = self.window(g, e["begin"], e["rseq"])
            if e["kind"] == "get":
                vals = e["obs"][0][0]
                states = [h[e["key"]] for h in self.hist[g]]
            else:
                vals = e["obs"][g]
                states = self.hist[g]
            ms = [m for m, st in enumerate(states) if st == vals]
            exact = e["kind"] in ("snap", "quiesce")
            okw = [m for m in ms if (hi if exact else lo) <= m <= hi]
            if okw:
                continue
            if not ms:
                # No whole state matches.  The known elision defect acts per key (a flush elides one key's
                # published version in favour of an unpublished one, a bottom compaction may then zero that
                # key's seqnum): is every key either in the reader's window, or showing a batch that was
                # still in flight during the read, or showing an older value while a newer batch was in flight?
                K = len(vals)
                inflight = lambda c: c["end"] > e["rseq"] and c["start"] < e["end"] and c["ret"] > e["begin"]
                kinds = set()
                for j in range(K):
                    mj = [m for m, st in enumerate(states) if st[j] == vals[j]]
                    if any((hi if exact else lo) <= m <= hi for m in mj):
                        kinds.add("ok")
                    elif mj and all(m > hi for m in mj) and all(inflight(c) for i, c in enumerate(self.gc[g]) if hi < i + 1 <= min(mj)):
                        kinds.add("future")
                    elif mj and any(i + 1 > max(mj) and c["end"] > e["rseq"] and c["start"] < e["end"] for i, c in enumerate(self.gc[g])):
                        kinds.add("elided")
                    else:
                        kinds.add("other")
                if "other" not in kinds and kinds - {"ok"}:
                    return "atomic", "per-key-mix-of-elided-and-future-unpublished"
                return "atomic", "not-a-whole-state"
            if all(m > hi for m in ms):
                # the observed batches above the reader's seqnum: still unpublished / in flight when the read ran?
                fut = [c for i, c in enumerate(self.gc[g]) if hi < i + 1 <= min(ms)]
                if fut and all(c["end"] > e["rseq"] and c["start"] < e["end"] and c["ret"] > e["begin"] for c in fut):
                    return "nofuture", "future-unpublished"
                return "nofuture", "above-reader-seqnum"
            # an older whole state: which batches are missing?
            newer_unpub = [c for i, c in enumerate(self.gc[g]) if i + 1 > max(ms) and c["end"] > e["rseq"] and c["start"] < e["end"]]
            if newer_unpub:
                return ("snapexact" if exact else "ryw"), "elided-by-unpublished"
            return ("snapexact" if exact else "ryw"), "older-state"
        return "?", "unclassified"


def trace_cfg(checked):
    return ("SPECIFICATION TraceSpec\nCONSTANTS\n  Checked = {%s}\nCONSTRAINT HWM\nPOSTCONDITION TraceAccepted\n"
            "CHECK_DEADLOCK FALSE\n" % ", ".join('"%s"' % c for c in checked)).encode()


LEAD_WHAT = ("A batch that is applied to its memtable but not yet published can be flushed (readyForFlush only looks at writerRefs; "
             "compactions never consult visibleSeqNum): the flush elides the last published version of the key, so readers see a stale "
             "value or nothing; a later bottom-level compaction zeroes the seqnum and makes the unpublished version visible to readers and snapshots")


def validate_files(run, files, checked, label, max_rejects=6):
    wd = vlib.scratch("verif.cmt.")
    files = list(files)
    cfgb = trace_cfg(checked)
    rejected = 0
    known = 0
    events = 0
    accepted = []
    while files:
        allp = os.path.join(wd, "all.ndjson")
        vlib.concat_traces(files, allp)
        v = vlib.validate_trace(SPECDIR, "CommitTrace", "CommitTraceRun.cfg", allp, timeout=2400,
                                extra_files={"CommitTraceRun.cfg": cfgb}, heap="6g")
        events += v.hwm
        if v.accepted:
            run.traces += len(files)
            accepted += files
            break
        if v.tlc.violation or ("Error:" in v.tlc.out and "TraceAccepted" not in v.tlc.out):
            raise vlib.Inconclusive("trace spec error during validation:\n" + v.tlc.out[-3000:])
        c = 0
        hit = None
        for i, f in enumerate(files):
            k = sum(1 for _ in open(f)) + 1
            if c + k > v.hwm:
                hit = (i, f, v.hwm - c + 1)
                break
            c += k
        if hit is None:
            raise vlib.Inconclusive("cannot locate the rejected line")
        i, f, line = hit
        run.traces += i
        accepted += files[:i]
        ev = v.rejected_line if isinstance(v.rejected_line, dict) else {"op": "reset"}
        op = ev.get("op")
        keep = os.path.join(run.outdir, os.path.basename(f))
        shutil.copy(f, keep)
        replay = {"trace": keep, "line": line, "checked": checked,
                  "cmd": "python3 /verif/vcheck run %s --tier %s --seed %d" % (run.prop, run.tier, run.seed)}
        if op == "fail":
            msg = ev.get("msg", "")
            if run.prop == "C42" or msg.startswith("hang"):
                run.violation({"kind": "driver-observed-failure", "what": msg.split(":")[0]},
                              "%s: the real DB failed during the run: %s" % (os.path.basename(f), msg[:400]), replay)
            else:
                raise vlib.Inconclusive("driver reported a failure outside %s's vocabulary: %s" % (run.prop, msg[:400]))
        elif op == "read":
            clause, shape = Model(load(f)).classify(ev)
            sig = {"kind": "trace-rejected", "op": "read", "clause": clause, "shape": shape}
            new = run.violation(sig, "%s line %d: %s read at seqnum %d rejected by CommitTrace (%s / %s): %s"
                          % (os.path.basename(f), line, ev.get("kind"), ev.get("rseq"), clause, shape, json.dumps(ev)[:300]), replay)
            if not new:
                known += 1  # a known finding does not count against the rejection cap
        elif op in ("commit", "wal", "vis", "reset"):
            clause = {"commit": "seq", "wal": "wal", "vis": "vis", "reset": "wal"}[op]
            run.violation({"kind": "trace-rejected", "op": op, "clause": clause},
                          "%s line %d: %s event rejected by CommitTrace (%s): %s" % (os.path.basename(f), line, op, clause, json.dumps(ev)[:300]),
                          replay)
        else:
            raise vlib.Inconclusive("trace %s rejected at line %d on an event outside the vocabulary: %s" % (f, line, str(ev)[:300]))
        rejected += 1
        files = files[i + 1:]
        if rejected - known >= max_rejects or rejected >= 60:
            break
    return events, rejected, accepted


def binding_demo(run, files, checked):
    """corrupt one logged field / drop one event of an accepted real trace: TLC must reject both"""
    wd = vlib.scratch("verif.cmb.")
    cfgb = trace_cfg(checked)
    rng = random.Random(run.seed)
    f = sorted(files)[rng.randrange(len(files))]
    lines = [l.strip() for l in open(f) if l.strip()]
    evs = [json.loads(l) for l in lines]

    def check(mut_lines, what, expect_line=None):
        p = os.path.join(wd, "m.ndjson")
        open(p, "w").write("\n".join(mut_lines) + "\n{\"op\":\"reset\"}\n")
        v = vlib.validate_trace(SPECDIR, "CommitTrace", "CommitTraceRun.cfg", p, extra_files={"CommitTraceRun.cfg": cfgb})
        if v.accepted:
            raise vlib.Inconclusive("binding demo: %s of %s was ACCEPTED by TLC" % (what, f))
        if expect_line is not None and v.hwm != expect_line:
            raise vlib.Inconclusive("binding demo: %s at line %d but TLC stopped at line %d" % (what, expect_line + 1, v.hwm + 1))

    done = []
    # (1) corrupt one observed token of a scan: pretend one key of one group still carries the previous token
    if "atomic" in checked:
        idx = [i for i, e in enumerate(evs) if e["op"] == "read" and e["kind"] in ("iter", "snap") and
               any(any(k for k in g) for g in e["obs"])]
        if idx:
            i = idx[len(idx) // 2]
            e = json.loads(lines[i])
            g = next(gi for gi, gg in enumerate(e["obs"]) if any(k for k in gg))
            e["obs"][g][0] = [424242]
            check(lines[:i] + [json.dumps(e)] + lines[i + 1:], "a corrupted observed token", i)
            done.append("one observed token corrupted -> rejected at that read")
    # (2) corrupt a commit's sequence number
    if "seq" in checked:
        idx = [i for i, e in enumerate(evs) if e["op"] == "commit"]
        i = idx[len(idx) // 2]
        e = json.loads(lines[i])
        e["seq"] += 1
        check(lines[:i] + [json.dumps(e)] + lines[i + 1:], "a corrupted Batch.SeqNum", i)
        done.append("one Batch.SeqNum corrupted -> rejected at that commit")
    # (3) a reader seqnum pushed below a batch it observed
    if "nofuture" in checked:
        m = Model(evs)
        for i, e in enumerate(evs):
            if e["op"] == "read" and e["kind"] == "iter" and e["rseq"] > m.meta["logseq"] + 2 and any(any(k for k in g) for g in e["obs"]):
                e2 = json.loads(lines[i])
                e2["rseq"] = m.meta["logseq"]
                check(lines[:i] + [json.dumps(e2)] + lines[i + 1:], "a lowered reader seqnum", i)
                done.append("one reader seqnum lowered below what it observed -> rejected at that read")
                break
    # (4) drop one commit event
    seen = set()
    for e in evs:
        if e["op"] == "read" and e["kind"] != "get":
            for gg in e["obs"]:
                for kk in gg:
                    seen.update(kk)
    idx = [i for i, e in enumerate(evs) if e["op"] == "commit" and ("seq" in checked or e["tok"] in seen)]
    if idx:
        i = idx[len(idx) // 3]
        check(lines[:i] + lines[i + 1:], "a dropped commit event (its token was observed by a reader)")
        done.append("one commit event dropped -> rejected")
    if len(done) < 2:
        raise vlib.Inconclusive("binding demo could not be completed")
    run.cov["binding_demo"] = done


def stats(run, files):
    evals = 0
    nontrivial = set()
    kinds = {}
    racing = 0
    large = ingest = flushable_ingest = commits = 0
    for f in files:
        evs = load(f)
        cs = [e for e in evs if e["op"] == "commit"]
        commits += len(cs)
        large += sum(1 for c in cs if c["kind"] == "large")
        ingest += sum(1 for c in cs if c["kind"].startswith("ingest"))
        flushable_ingest += sum(1 for c in cs if c["kind"] == "ingestf")
        spans = sorted((c["start"], c["ret"]) for c in cs)
        for e in evs:
            op = e["op"]
            if op == "read":
                evals += 1 if e["kind"] == "get" else len(e["obs"])
                kinds[e["kind"]] = kinds.get(e["kind"], 0) + 1
                # non-trivial: the read overlapped at least one commit in flight and saw data
                if any(s < e["end"] and r > e["begin"] for s, r in spans) and any(any(k for k in g) for g in e["obs"]):
                    racing += 1
                    nontrivial.add(vlib.sha(json.dumps([e["kind"], e["rseq"], e["obs"]])))
            elif op in ("commit", "wal", "vis"):
                evals += 1
    run.cov["evaluations"] = evals
    run.cov["distinct_nontrivial"] = len(nontrivial)
    run.cov["rule"] = ("evaluations = group observations of scans/snapshot reads + single Gets + commit (seqnum range) + WAL record + "
                       "visibleSeqNum sample events, each asserted by TLC (CommitTrace); a read is non-trivial when at least one "
                       "commit was in flight during it (clock intervals overlap) and it observed data; distinct by (kind, seqnum, observation)")
    run.cov["reads_by_kind"] = kinds
    run.cov["reads_racing_with_commits"] = racing
    run.cov["commits"] = dict(total=commits, large_flushable=large, ingests=ingest, flushable_ingests=flushable_ingest)


def probe_lead(run):
    """the spec-level lead (Lead_ElideUnpublished.cfg) replayed as a directed schedule on the real DB"""
    d = vlib.scratch("verif.cmp.")
    res = {}
    for large in ("0", "1"):
        rc, out = vlib.run_driver(driver(False), "TestVCommitProbeElide", env={"VERIF_OUT": d, "VERIF_PROBE_LARGE": large}, timeout=120)
        m = re.search(r"^PROBE (.*)$", out, re.M)
        if not m:
            raise vlib.Inconclusive("probe died:\n" + out[-2000:])
        res["large" if large == "1" else "small"] = json.loads(m.group(1))
    return res


def common(run, prop, plans, race=False, rich=False):
    checked = CLAUSES[prop]
    tdir = vlib.scratch("verif.cmtr.")
    outs = stress(run, tdir, plans, race=race, rich=rich)
    files = sorted(glob.glob(os.path.join(tdir, "*.ndjson")))
    bad = [(rc, out) for rc, out, env in outs if "DRIVER-DONE" not in out]
    for rc, out in bad:
        if "VCOMMIT-HANG" in out:
            keep = os.path.join(run.outdir, "hang_goroutines.txt")
            open(keep, "w").write(out)
            run.violation({"kind": "hang"}, "the stress driver made no progress (watchdog); goroutine dump in " + keep, {"dump": keep})
        elif "WARNING: DATA RACE" in out:
            pass  # handled by the caller (C42)
        else:
            m = re.search(r"panic: .*", out)
            if m and prop == "C42":
                keep = os.path.join(run.outdir, "panic.txt")
                open(keep, "w").write(out)
                run.violation({"kind": "panic"}, "panic during concurrent use: " + m.group(0)[:300], {"output": keep})
            else:
                raise vlib.Inconclusive("stress driver died:\n" + out[-3000:])
    if not files:
        raise vlib.Inconclusive("no traces produced")
    events, rejected, accepted = validate_files(run, files, checked, prop)
    if accepted:
        binding_demo(run, accepted, checked)
    elif not run.violations:
        raise vlib.Inconclusive("no accepted trace to run the binding demonstration on")
    run.cov["traces_rejected"] = rejected
    stats(run, files)
    run.cov["trace_events"] = events
    run.cov["clauses_asserted"] = checked
    for f in files[:1]:
        evs = load(f)
        rd = [e for e in evs if e["op"] == "read"]
        run.sample({"trace": os.path.basename(f), "open": evs[0], "first_commits": [e for e in evs if e["op"] == "commit"][:3],
                    "a_read": rd[len(rd) // 2] if rd else None})
    return outs, files


def plans_for(tier, rich=False):
    base = dict(VERIF_K=8, VERIF_GROUPS=4, VERIF_COMMITTERS=4, VERIF_READERS=3, VERIF_INGESTERS=1, VERIF_COMMITS=12, VERIF_PHASES=3)
    if tier == "quick":
        var = [dict(VERIF_ROUNDS=5, VERIF_YIELD=30, VERIF_PIPEYIELD=0),
               dict(VERIF_ROUNDS=5, VERIF_YIELD=20, VERIF_PIPEYIELD=25),
               dict(VERIF_ROUNDS=3, VERIF_YIELD=0, VERIF_PIPEYIELD=0, VERIF_COMMITTERS=8, VERIF_READERS=4, VERIF_K=16)]
    else:
        var = [dict(VERIF_ROUNDS=25, VERIF_YIELD=30, VERIF_PIPEYIELD=0),
               dict(VERIF_ROUNDS=25, VERIF_YIELD=20, VERIF_PIPEYIELD=25),
               dict(VERIF_ROUNDS=15, VERIF_YIELD=50, VERIF_PIPEYIELD=60, VERIF_PROCS=2),
               dict(VERIF_ROUNDS=15, VERIF_YIELD=0, VERIF_PIPEYIELD=0, VERIF_COMMITTERS=8, VERIF_READERS=4, VERIF_K=16),
               # > 4096 commits in one DB lifetime: the ring of record.SyncConcurrency slots wraps (measured: 4620 commits,
               # 17k events, validated by TLC in ~90 s)
               dict(VERIF_ROUNDS=1, VERIF_YIELD=0, VERIF_PIPEYIELD=0, VERIF_COMMITTERS=8, VERIF_COMMITS=560, VERIF_PHASES=1,
                    VERIF_READERS=2, VERIF_K=4)]
    return [dict(base, **v) for v in var]


ASSUME = [
    "TLC's verdict on every trace is authoritative; the Go driver only executes and records (its own failures are logged as 'fail' events)",
    "happened-before facts come from one global atomic counter incremented before a commit starts, after it returns and before a reader "
    "is created; wall-clock time is never compared across goroutines",
    "every batch/ingest of the driver overwrites all K keys of one key group with one token, so 'all K values belong to one batch' is "
    "observable; merges (C42 vocabulary) are never issued to groups that receive ingests",
    "iterators and Gets capture the readState before loading visibleSeqNum, so equality with {b : seq+cnt <= s} is demanded of snapshots only",
    "the real ring has 4096 slots: forced/exhaustive wrap-around is design-level only (Q=3,4); the thorough stress plan commits > 4096 batches in one DB",
]


def mode_c(run, prop):
    """forced schedules + exploration through verifhook Points; only when /repo carries them"""
    if not mode_c_note(run):
        return
    binp = vlib.build_driver(".", name="root_commit_hook", tags="verif,verifhook_commit", timeout=2400)
    tdir = vlib.scratch("verif.cmh.")
    quick = run.tier == "quick"
    env = dict(VERIF_OUT=tdir, VERIF_SEED=str(run.seed), VERIF_ROUNDS=str(3 if quick else 30))
    rc, out = vlib.run_driver(binp, "TestVCommitHookForced", env=env, timeout=1200)
    if "DRIVER-DONE" not in out:
        raise vlib.Inconclusive("forced-schedule driver died:\n" + out[-2000:])
    drift = re.findall(r"^DRIFT schedule=(\S+)", out, re.M)
    for d in drift:
        vlib.log("DRIFT module=Commit event=%s (the real goroutines did not reach the armed Point; exploration continues)" % d)
    env = dict(VERIF_OUT=tdir, VERIF_SEED=str(run.seed), VERIF_ROUNDS=str(4 if quick else 40), VERIF_HOOKYIELD="20",
               VERIF_K="8", VERIF_COMMITS="12")
    rc, out2 = vlib.run_driver(binp, "TestVCommitHookExplore", env=env, timeout=1500)
    if "DRIVER-DONE" not in out2:
        if "VCOMMIT-HANG" in out2:
            keep = os.path.join(run.outdir, "hang_goroutines_modeC.txt")
            open(keep, "w").write(out2)
            run.violation({"kind": "hang"}, "no progress under the Point scheduler; goroutine dump in " + keep, {"dump": keep})
        else:
            raise vlib.Inconclusive("exploration driver died:\n" + out2[-2000:])
    files = sorted(glob.glob(os.path.join(tdir, "*.ndjson")))
    events, rejected, accepted = validate_files(run, files, CLAUSES[prop], prop + "/modeC")
    sites = dict((m.group(1), int(m.group(2))) for m in re.finditer(r"^SITE (\S+) (\d+)", out2, re.M))
    run.cov["mode_C"] = dict(forced_schedules=len([f for f in files if "forced-" in f]), drift=drift,
                             exploration_rounds=len([f for f in files if "hookexp-" in f]), points_hit=sites,
                             trace_events=events, rejected=rejected,
                             schedules="directed: cas-race (Bug_StoreNotCAS), unapplied-head (Bug_PublishEarly/DequeueUnapplied), "
                                       "reader-two-step, rotate-under-reader (reader between loadReadState and visibleSeqNum.Load)")
    never = [p for p in ("commit.publish.loaded", "commit.beforeApply", "db.newIter.stateLoaded", "commit.dequeue.cas") if p not in sites]
    if never:
        vlib.log("DRIFT module=Commit event=points-never-hit:%s" % ",".join(never))
        run.cov["mode_C"]["drift"] = drift + never


def mode_c_note(run):
    if hooks_present():
        run.cov["mode_C"] = "verifhook Points present in /repo"
        return True
    run.cov["mode_C"] = ("not run: /repo has no internal/verifhook with commit Points (hooks/commit.patch not applied); "
                         "mode B + exhaustive spec + hook-free random-yield exploration were run")
    return False


def run_c06(run):
    exh = QUICK_EXH["C06"] if run.tier == "quick" else list(dict(QUICK_EXH["C06"] + THOR_EXH).items())
    other = design(run, exh, BUGS["C06"])
    common(run, "C06", plans_for(run.tier))
    mode_c(run, "C06")
    run.assumptions += ASSUME


def run_c07(run):
    extra = [("lead", "Lead_ElideUnpublished", 2, None, dict(timeout=600, heap="2g"))]
    # Thor_2x2_reader.cfg (28.3 M distinct / 97.9 M generated states, passes; 19 min at 6 workers standalone) is NOT part of the
    # registered thorough tier: together with the rest it exceeded 25 min on a shared machine.  Run it by hand.
    exh = QUICK_EXH["C07"] if run.tier == "quick" else list(dict(QUICK_EXH["C07"] + THOR_EXH).items())
    if run.tier == "thorough":
        extra.append(("live", "Live_PP", 4, None, dict(timeout=2400, heap="8g")))
    other = design(run, exh, BUGS["C07"], extra)
    if "Live_PP" in other:
        r = other["Live_PP"]
        if not r.ok:
            raise vlib.Inconclusive("liveness (Termination under weak fairness) failed on the unmodified spec: %s" % r.violation)
        run.add_design("Commit/Live_PP [Termination under WF, 2 plain x 1 + reader]", r)
    lead = other["Lead_ElideUnpublished"]
    common(run, "C07", plans_for(run.tier))
    mode_c(run, "C07")
    # spec-level lead -> directed reproduction on the real code (DESIGN 4 (ii))
    if lead.violation == "ReadYourWrites":
        res = probe_lead(run)
        run.cov["lead_elide_unpublished"] = {"tlc": "ReadYourWrites violated after %d states with Elide=\"any\" (compaction ignores visibleSeqNum)" % lead.generated,
                                             "real_code": res}
        for name, r in res.items():
            # the only correct answer in the window is v1 (v2 is unpublished); after the compaction still v1
            stale = r.get("get") != "v1" or r.get("iter") != "v1"
            early = r.get("get_after_compact") == "v2" and r.get("vis_after_compact") == r.get("vis_in_window")
            if stale or early:
                keep = os.path.join(run.outdir, "probe_elide_%s.json" % name)
                json.dump(r, open(keep, "w"), indent=1)
                run.violation({"kind": "lead-reproduced", "lead": "elide-unpublished"},
                              "Set(k,v0);Flush; Set(k,v1) returned; Set(k,v2) applied but unpublished (visibleSeqNum=%s, logSeqNum=%s); Flush() "
                              "completed; then Get(k) -> %s, NewIter (seqNum %s) -> %s (must be v1); after Compact: Get(k) -> %s, snapshot at %s "
                              "-> %s while visibleSeqNum=%s. %s" % (r.get("vis_in_window"), r.get("logseq_in_window"), r.get("get"),
                                                                    r.get("iter_seq"), r.get("iter"), r.get("get_after_compact"), r.get("snap_seq"),
                                                                    r.get("snap_get_after_compact"), r.get("vis_after_compact"), LEAD_WHAT),
                              {"probe": keep, "cmd": "VERIF_OUT=/var/tmp/x %s -test.run TestVCommitProbeElide -test.v" % driver(False)})
                break
    elif lead.violation is None:
        run.cov["lead_elide_unpublished"] = "TLC no longer finds the lead with Elide=\"any\""
    else:
        raise vlib.Inconclusive("Lead_ElideUnpublished violated %s (expected ReadYourWrites)" % lead.violation)
    run.assumptions += ASSUME


def run_c42(run):
    # design level: lock protocol deadlock freedom
    vlib.sany(SPECDIR, "Locks")
    jobs = [("exh", "Locks_A", 4, None, dict(module="Locks", timeout=900, heap="4g")),
            ("exh", "Locks_B", 4, None, dict(module="Locks", timeout=900, heap="4g")),
            ("bug", "Bug_Locks_StallHoldsDmu", 2, ["deadlock"], dict(module="Locks", timeout=600, heap="2g")),
            ("bug", "Bug_Locks_IngestWaitsUnderDmu", 2, ["deadlock"], dict(module="Locks", timeout=600, heap="2g"))]
    if run.tier == "thorough":
        jobs.append(("live", "Locks_Live", 4, None, dict(module="Locks", timeout=1800, heap="4g")))
    with ThreadPoolExecutor(max_workers=5) as ex:
        results = list(ex.map(_tlc_job, jobs))
    caught = {}
    for kind, cfg, expect, r in results:
        if r.timed_out:
            raise vlib.Inconclusive("TLC timed out on Locks/%s" % cfg)
        if kind == "bug":
            if r.violation not in expect:
                raise vlib.Inconclusive("seeded lock bug %s not caught as a deadlock (got %s)" % (cfg, r.violation))
            caught[cfg] = "%s after %d states" % (r.violation, r.generated)
        else:
            if not r.ok:
                raise vlib.Inconclusive("Locks/%s fails on the unmodified spec: %s\n%s" % (cfg, r.violation, r.out[-2000:]))
            run.add_design("Locks/%s [commit+rotation, commit, read, Flush(), ingest waiting for a flush, looping flush job; "
                           "DB.mu, commitPipeline.mu, manifest log lock, readState lock, write-stall / flushed / publish waits]" % cfg, r)
    run.cov["seeded_bugs_caught"] = caught
    # conformance: -race build, rich vocabulary, maintenance goroutine, watchdog, quiescent barriers
    base = dict(VERIF_K=6, VERIF_GROUPS=4, VERIF_COMMITTERS=4, VERIF_READERS=3, VERIF_INGESTERS=1, VERIF_COMMITS=10, VERIF_PHASES=3,
                VERIF_MAINT=1)
    if run.tier == "quick":
        plans = [dict(base, VERIF_ROUNDS=3, VERIF_YIELD=30, VERIF_PIPEYIELD=0),
                 dict(base, VERIF_ROUNDS=3, VERIF_YIELD=20, VERIF_PIPEYIELD=25)]
    else:
        plans = [dict(base, VERIF_ROUNDS=25, VERIF_YIELD=30, VERIF_PIPEYIELD=0),
                 dict(base, VERIF_ROUNDS=25, VERIF_YIELD=20, VERIF_PIPEYIELD=25),
                 dict(base, VERIF_ROUNDS=15, VERIF_YIELD=50, VERIF_PIPEYIELD=50, VERIF_PROCS=2),
                 dict(base, VERIF_ROUNDS=10, VERIF_YIELD=0, VERIF_PIPEYIELD=0, VERIF_COMMITTERS=8, VERIF_READERS=4)]
    outs, files = common(run, "C42", plans, race=True, rich=True)
    races = 0
    for rc, out, env in outs:
        if "WARNING: DATA RACE" in out:
            races += 1
            keep = os.path.join(run.outdir, "race_%d.txt" % races)
            open(keep, "w").write(out)
            first = out[out.index("WARNING: DATA RACE"):][:1500]
            fn = re.findall(r"^  (\S+\(\))", first, re.M)
            run.violation({"kind": "data-race", "at": fn[0] if fn else "?"}, "race detector report during concurrent use:\n" + first[:600],
                          {"output": keep, "env": env})
    quiesce = sum(1 for f in files for e in load(f) if e["op"] == "read" and e["kind"] == "quiesce")
    run.cov["quiescent_barriers_compared"] = quiesce
    run.cov["race_detector"] = "driver built with -race; %d report(s)" % races
    run.assumptions += ASSUME + [
        "data races are detected only as a side effect of the -race build on the schedules that happened; what TLC decides is lock-protocol "
        "deadlock freedom (Locks.tla) and the result correctness of the recorded executions (CommitTrace.tla)",
        "at quiescent barriers the full DB state (iterator scan and snapshot read) must equal the sequential fold of all committed batches "
        "and ingests in seqnum order (set/delete/merge); excise is not part of this driver's vocabulary",
    ]


def REGISTER(reg):
    note = ("Trusted: TLC; Commit.tla as the statement of the pipeline protocol (two-step reader, per-key apply, rotation, flushable "
            "batches, AllocateSeqNum, flush/compaction); the driver's recording of seqnums (read in-package) and of its logical clock. "
            "Bounded: exhaustive for 2-3 committers, 1-2 commits, ring Q=3/4, K=2; real-code side: seeded stress (4-8 committers, "
            "3-4 readers, memtables of 16-64 KiB so rotations, flushable batches and flushable ingests occur) incl. random yields "
            "inside the pipeline; forced schedules only when hooks/commit.patch is applied.")
    tech = ("TLA+ model of the commit pipeline (Commit.tla) checked exhaustively by TLC with seeded-bug self-tests + TLC trace validation "
            "(CommitTrace.tla) of real concurrent executions recorded by an in-package stress driver")
    reg("C06", "Batches are atomic to every reader, including large batches", run_c06,
        "ReadAtomic/PublishedImpliesApplied/NoFuture hold in every state of the bounded pipeline model (TLC exhaustive, seeded bugs caught); "
        "on the real DB every scan, snapshot read and Get taken concurrently with commits (small, memtable-rotating, flushable batches, "
        "ingests) is validated by TLC: each key group is observed wholly at one batch, contains everything that had returned, nothing above "
        "the reader's seqnum.", note, tech, "DESIGN 5.2, 6/C06")
    reg("C07", "Read-your-writes and monotone visibility under concurrent commits", run_c07,
        "SeqContiguous, VisMonotone, PublishedImpliesApplied, ReturnedVisible, ReadYourWrites, QueueSafe, AllocSeesPrior, deadlock freedom "
        "(and Termination under fairness, thorough) hold in the bounded model; on the real DB TLC validates from recorded traces: unique "
        "contiguous seqnum ranges in WAL append order, monotone boundary-valued visibleSeqNum samples covering every returned commit, "
        "readers created after a Commit returned observe it, snapshots observe exactly the batches below their seqnum.",
        note, tech, "DESIGN 5.2, 6/C07")
    reg("C42", "Concurrent use permitted by the API is race- and deadlock-free", run_c42,
        "Claimed for deadlocks, panics and result correctness; data races only as a side effect. Locks.tla (DB.mu, commitPipeline.mu, manifest "
        "log lock, readState lock, the condition waits of makeRoomForWrite/Flush/ingest/publish) is deadlock-free under TLC; the stress driver "
        "built with -race runs concurrent commits (set/delete/merge, large batches), Gets, iterators, snapshots, ingests, flushes, compactions, "
        "checkpoints and metrics under a watchdog; TLC validates every concurrent read with the order-insensitive monitors and every quiescent "
        "barrier against the sequential fold of all commits in seqnum order.",
        "Trusted: TLC, Locks.tla as the statement of the lock protocol (hand-derived from db.go/ingest.go/compaction.go/version_set.go), the Go "
        "race detector as execution environment. Bounded: 6 operations in the lock model; seeded stress runs.",
        "TLA+ lock-protocol model checked by TLC for deadlock freedom + TLC trace validation of -race stress executions", "DESIGN 6/C42")
