"""SST engine: the sorted internal-key list model InternalIter.tla bound to the real
sstable writers/readers, virtual readers/transforms/CopySpan, mergingIter/levelIter,
the batch encoding and the comparers.
  design : TLC exhaustive on InternalIterGen / MergeGen / VirtGen / BatchGen / KeyOrder (+ Bug_*.cfg)
  mode A : TLC-generated inputs (simulation) and seeded driver-enumerated inputs -> Go drivers run them
           on the real code under a matrix of options -> NDJSON -> TLC trace specs decide every step
Serves C25, C27, C29, C33, C31, C35."""
import glob, json, os, random, shutil, threading, time
import vlib
vlib.time = time

SPECDIR = os.path.join(vlib.SPEC, "InternalIter")
WORKERS = int(os.environ.get("VERIF_WORKERS", "0")) or vlib.NCPU
TLCJ = "java"


# ---------------------------------------------------------------------------------------------
# generic helpers
class _Skip:
    distinct = generated = depth = 0
    coverage = {}

    def summary(self):
        return {"skipped": True}


def design_run(specdir, module, cfgbytes, **kw):
    if SKIP_DESIGN:
        return _Skip()
    return vlib.tlc_must_pass(specdir, module, "run.cfg", extra_files={"run.cfg": cfgbytes}, **kw)


class Phase:
    """wall-clock of the phases of a check, recorded in the evidence"""
    def __init__(self, run, name):
        self.run, self.name = run, name

    def __enter__(self):
        self.t0 = vlib.time.time()

    def __exit__(self, *a):
        self.run.cov.setdefault("phase_wall_s", {})[self.name] = round(vlib.time.time() - self.t0, 1)


def cfg_text(consts, invariants=(), spec="Spec", view=None, extra=""):
    out = ["SPECIFICATION " + spec, "CONSTANTS"]
    for k, v in consts.items():
        if isinstance(v, bool):
            v = "TRUE" if v else "FALSE"
        elif isinstance(v, str):
            v = '"%s"' % v
        elif isinstance(v, (set, frozenset, list, tuple)):
            v = "{" + ", ".join(('"%s"' % x) if isinstance(x, str) else str(x) for x in sorted(v)) + "}"
        out.append("  %s = %s" % (k, v))
    for i in invariants:
        out.append("INVARIANT " + i)
    if view:
        out.append("VIEW " + view)
    out.append("CHECK_DEADLOCK FALSE")
    if extra:
        out.append(extra)
    return ("\n".join(out) + "\n").encode()


def trace_cfg(P, S, keepexp=False, extra_consts=None):
    c = dict(P=P, S=S, Bug="none", KeepExp=keepexp)
    c.update(extra_consts or {})
    return cfg_text(c, spec="TraceSpec", extra="CONSTRAINT HWM\nPOSTCONDITION TraceAccepted")


SKIP_DESIGN = os.environ.get("VERIF_SKIP_DESIGN") == "1"   # development / mutation testing only
# a scratch worktree (VERIF_REPO) gets its own driver binaries, so that runs against it and against /repo do not collide
DRVSUFFIX = "" if vlib.REPO == "/repo" else "_" + vlib.sha(vlib.REPO)


def run_bug_cfgs(run, specdir, module, names, workers=2):
    """seeded-bug self tests, in parallel threads (each is a short TLC run)"""
    if SKIP_DESIGN:
        return
    res, errs = {}, []

    def one(n):
        try:
            r = vlib.tlc_must_fail(specdir, module, "Bug_%s.cfg" % n, workers=workers, timeout=600)
            res[n] = dict(violation=r.violation, generated=r.generated, wall_s=round(r.wall, 1))
        except vlib.Inconclusive as e:
            errs.append(str(e))
    ths = [threading.Thread(target=one, args=(n,)) for n in names]
    for t in ths:
        t.start()
    for t in ths:
        t.join()
    if errs:
        raise vlib.Inconclusive(errs[0])
    run.cov.setdefault("seeded_bugs_caught", {}).update({"%s/%s" % (module, k): v for k, v in res.items()})


def in_parallel(*fns):
    """run the given thunks in threads; re-raise the first Inconclusive"""
    errs = []

    def wrap(fn):
        def go():
            try:
                fn()
            except vlib.Inconclusive as e:
                errs.append(e)
            except Exception as e:          # a programming error must not be swallowed by the thread
                errs.append(vlib.Inconclusive("internal error in parallel phase: %r" % (e,)))
        return go
    ths = [threading.Thread(target=wrap(fn)) for fn in fns]
    for t in ths:
        t.start()
    for t in ths:
        t.join()
    if errs:
        raise errs[0]


def sim_scripts(run, specdir, module, cfgname, cfgbytes, walks, depth, seed, label):
    """TLC simulation as input generator: returns the list of printed JSON behaviours (deduplicated)"""
    r = vlib.tlc(specdir, module, cfgname, workers=1, timeout=1500, simulate="num=%d" % walks, depth=depth, seed=seed,
                 extra_files={cfgname: cfgbytes})
    if r.timed_out or r.violation or ("Error:" in r.out):
        raise vlib.Inconclusive("%s simulation failed (%s)\n%s" % (module, r.violation, r.out[-2500:]))
    seen, scripts = set(), []
    for l in r.out.splitlines():
        if not l.startswith('"['):
            continue
        try:
            script = json.loads(json.loads(l))
        except Exception:
            continue
        key = vlib.sha(json.dumps(script, sort_keys=True))
        if key in seen:
            continue
        seen.add(key)
        scripts.append(script)
    run.design[label] = dict(walks=walks, behaviours=len(scripts), generated=r.generated, wall_s=round(r.wall, 1))
    run.transitions += r.generated
    return scripts


def ooc_count(tlcout):
    n = 0
    for l in tlcout.splitlines():
        if '"OOC"' in l:
            try:
                n = int(l.strip().strip("<>").split(",")[1])
            except Exception:
                pass
    return n


def segment_of(path, line):
    """the table/levels/... event that opened the segment containing line (1-based) and that line's config"""
    head = None
    with open(path) as f:
        for i, l in enumerate(f, 1):
            if i > line:
                break
            if l.startswith('{"cfg"') or '"op":"table"' in l or '"op":"levels"' in l or '"op":"case"' in l:
                head = l
    try:
        return json.loads(head) if head else None
    except Exception:
        return None


def shape_of(path, line):
    """Diagnostic classification of a rejected step (the verdict is TLC's; the shape only names the situation so that a
    reported finding can be registered in KNOWN_FINDINGS.jsonl).  Looks at the segment of the rejected line: writer
    configuration, transforms in force, and whether the iterator had been re-bound (SetBounds) since it was opened."""
    cfg, ssuf, ev = "", 0, None
    rebound = {}
    with open(path) as f:
        for i, l in enumerate(f, 1):
            if i > line:
                break
            if '"op":"table"' in l or '"op":"levels"' in l:
                try:
                    cfg = json.loads(l).get("cfg", "")
                except Exception:
                    cfg = ""
                ssuf, rebound = 0, {}
            elif '"op":"virt"' in l:
                ssuf, rebound = json.loads(l).get("ssuf", 0), {}
            elif '"op":"open"' in l:
                rebound.pop(json.loads(l).get("h"), None)
            elif '"op":"setb"' in l:
                e = json.loads(l)
                rebound[e.get("h")] = (e.get("lo"), e.get("hi"))
            if i == line:
                try:
                    ev = json.loads(l)
                except Exception:
                    ev = None
    if isinstance(ev, dict) and ev.get("op") == "corrupt":
        return corrupt_shape(path, line, cfg, ev)
    if not isinstance(ev, dict) or ev.get("op") != "it":
        return None
    res, b = ev.get("res", []), rebound.get(ev.get("h"))
    rowblk = any(("(Pebble,v%d)" % v) in cfg for v in (1, 2, 3, 4))
    if (b and ssuf > 0 and rowblk and ev.get("o") in ("prev", "seeklt", "last") and len(res) == 4 and 0 <= res[0] < b[0]):
        return "rowblk-synthetic-suffix-rebound-iterator-returns-key-below-lower-bound"
    if b:
        return "rebound-iterator"
    return None


def corrupt_shape(path, line, cfg, ev):
    """Diagnostic shape of a rejected corrupt{} event (C27): aligns the re-run results with the leader's it/fit events of
    the segment and looks at the first result that is neither an error nor the leader's result."""
    lead = []
    with open(path) as f:
        for i, l in enumerate(f, 1):
            if i >= line:
                break
            if '"op":"table"' in l:
                lead = []
            elif '"op":"it"' in l or '"op":"fit"' in l:
                try:
                    lead.append(json.loads(l))
                except Exception:
                    pass
    res = ev.get("res", [])
    if ev.get("open") != "ok" or len(res) != len(lead):
        return "corrupt-results-misaligned"
    bad = [i for i, r in enumerate(res) if r != [-1] and r != lead[i]["res"]]
    if not bad:
        return None
    i = bad[0]
    errs_before = any(r == [-1] for r in res[:i])
    same_call = i > 0 and all(lead[i].get(k) == lead[i - 1].get(k) for k in ("op", "o", "k", "h"))
    if cfg.startswith("db/") and res[i] == [] and same_call and res[i - 1] == [-1]:
        return "db-iterator-same-seek-after-value-error-reports-exhaustion" if is_value_block_error(path, line, lead, res, i) \
            else "db-iterator-same-seek-after-error-reports-exhaustion"
    if res[i] == [-2]:
        return "panic-on-corrupted-table"
    if same_call and res[i - 1] == [-1]:
        return "same-call-retried-after-error-returns-wrong-result"
    if errs_before:
        return "wrong-result-on-an-iterator-that-reported-an-error-earlier"
    return "wrong-result-without-any-error"


def is_value_block_error(path, line, lead, res, i):
    """the error before the silent exhaustion came from fetching the value (the key itself was found): the same call
    succeeds on other keys of the same run, and the failing call's leader result has a non-empty value"""
    r = lead[i]["res"]
    return len(r) == 4 and r[3] != 0


def validate_files(run, specdir, module, cfgname, cfgbytes, files, vocab, label, batch_lines=60000, sig_fields=("op", "o", "t")):
    """validate trace files, many per TLC run; on rejection record a violation and continue after that file"""
    wd = vlib.scratch("verif.sstt.")
    files = list(files)
    rejected = 0
    total = 0
    while files:
        # take a batch
        batch, n = [], 0
        while files and (not batch or n < batch_lines):
            f = files.pop(0)
            batch.append(f)
            n += sum(1 for _ in open(f)) + 1
        while batch:
            allp = os.path.join(wd, "all.ndjson")
            vlib.concat_traces(batch, allp)
            v = vlib.validate_trace(specdir, module, cfgname, allp, timeout=3000, extra_files={cfgname: cfgbytes}, heap="8g")
            if ooc_count(v.tlc.out):
                if run.violations or run.known:
                    # scripts are generated from the real results of a leader configuration: once a real result has been
                    # rejected, the scripts derived from it may leave the caller contract when replayed elsewhere. The
                    # violation stands on the rejected real step; the remaining traces are not evaluated.
                    run.cov["note"] = "validation stopped after the recorded violation(s): later scripts were derived from the rejected results"
                    return total, rejected
                raise vlib.Inconclusive("%s: %d generated steps were outside the documented caller contract (generator bug)"
                                        % (label, ooc_count(v.tlc.out)))
            total += v.hwm
            if v.accepted:
                run.traces += len(batch)
                break
            if v.tlc.violation or ("Error:" in v.tlc.out and "TraceAccepted" not in v.tlc.out):
                raise vlib.Inconclusive("trace spec error during validation:\n" + v.tlc.out[-3000:])
            c, hit = 0, None
            for i, f in enumerate(batch):
                k = sum(1 for _ in open(f)) + 1
                if c + k > v.hwm:
                    hit = (i, f, v.hwm - c + 1)
                    break
                c += k
            if hit is None:
                raise vlib.Inconclusive("cannot locate rejected line")
            i, f, line = hit
            run.traces += i
            ev = v.rejected_line
            if not isinstance(ev, dict) or ev.get("op") not in vocab:
                raise vlib.Inconclusive("trace %s rejected at line %d on an event outside the property's vocabulary: %s"
                                        % (f, line, str(ev)[:400]))
            keep = os.path.join(run.outdir, os.path.basename(f))
            shutil.copy(f, keep)
            seg = segment_of(f, line) or {}
            sig = {"kind": "trace-rejected", "label": label}
            for k in sig_fields:
                if k in ev:
                    sig[k] = ev[k]
            shp = shape_of(f, line)
            if shp:
                sig["shape"] = shp
            run.violation(sig, "%s: step rejected by %s at line %d: %s   [segment: %s]"
                          % (os.path.basename(f), module, line, json.dumps(ev)[:400], json.dumps(seg)[:500]),
                          replay_obj={"trace": keep, "line": line, "segment": seg,
                                      "cmd": "VERIF_SEED=%d python3 /verif/vcheck run %s --tier %s" % (run.seed, run.prop, run.tier)})
            rejected += 1
            batch = batch[i + 1:]
            if rejected >= 6:
                return total, rejected
    return total, rejected


def binding_demo(run, specdir, module, cfgname, cfgbytes, files, corrupt, droppable, tries=10):
    """corrupt one logged result / drop one event of an accepted real trace: TLC must reject both"""
    wd = vlib.scratch("verif.sstb.")
    rng = random.Random(run.seed)
    cands = list(files)
    rng.shuffle(cands)
    done_c = done_d = False
    for f in cands[:tries]:
        lines = [l.strip() for l in open(f) if l.strip()][:3000]
        if not done_c:
            idx = [i for i, l in enumerate(lines) if corrupt(l) is not None]
            if idx:
                i = idx[len(idx) // 2]
                p = os.path.join(wd, "c.ndjson")
                open(p, "w").write("\n".join(lines[:i] + [corrupt(lines[i])] + lines[i + 1:]) + "\n")
                v = vlib.validate_trace(specdir, module, cfgname, p, extra_files={cfgname: cfgbytes})
                if v.accepted:
                    raise vlib.Inconclusive("binding demo: corrupted result at line %d of %s was ACCEPTED" % (i + 1, f))
                if v.hwm != i:
                    raise vlib.Inconclusive("binding demo: corrupted line %d but TLC stopped at line %d" % (i + 1, v.hwm + 1))
                done_c = True
        if not done_d:
            idx = [i for i, l in enumerate(lines) if droppable(l)]
            rng.shuffle(idx)
            # candidates: a few relative steps, then (always rejected) the event that opened an iterator
            opens = [i for i, l in enumerate(lines) if '"op":"open"' in l or '"op":"case"' in l]
            for i in idx[:4] + opens[len(opens) // 2:len(opens) // 2 + 1]:
                p = os.path.join(wd, "d.ndjson")
                open(p, "w").write("\n".join(lines[:i] + lines[i + 1:]) + "\n")
                v = vlib.validate_trace(specdir, module, cfgname, p, extra_files={cfgname: cfgbytes})
                if not v.accepted:
                    done_d = True
                    break
        if done_c and done_d:
            break
    if not (done_c and done_d):
        raise vlib.Inconclusive("binding demo could not be completed (corrupt=%s drop=%s)" % (done_c, done_d))
    run.cov["binding_demo"] = "one corrupted logged result and one dropped event of accepted real traces were both rejected by TLC"


def demo_sample(files, path, corrupt, n, heads=('"op":"table"', '"op":"levels"')):
    """a self-contained piece of an accepted trace for the binding demo: n lines starting at a segment head (table{} /
    levels{} reset the trace spec's state) and containing a line that `corrupt` can alter and a relative step"""
    for f in files[:6]:
        lines = open(f).read().splitlines()
        starts = [i for i, l in enumerate(lines) if any(h in l for h in heads)]
        for st in starts[:400]:
            piece = lines[st:st + n]
            good = [l for l in piece if corrupt(l) is not None]
            if len(good) >= 3 and any(droppable_it(l) for l in piece):
                with open(path, "w") as o:
                    o.write("\n".join(piece) + "\n")
                return path
    raise vlib.Inconclusive("binding demo: no trace piece with a corruptible result found")


def run_go(binp, test, env, timeout=3000):
    rc, out = vlib.run_driver(binp, test, env=env, timeout=timeout)
    if "DRIVER-DONE" not in out:
        raise vlib.Inconclusive("driver %s died:\n%s" % (test, out[-3000:]))
    done = [l for l in out.splitlines() if l.startswith("DRIVER-DONE")][-1]
    info = {}
    for tok in done.split()[1:]:
        if "=" in tok:
            k, v = tok.split("=", 1)
            try:
                info[k] = int(v)
            except ValueError:
                info[k] = v
    return out, info


# ---------------------------------------------------------------------------------------------
# C25 / C27: sstables
PT_BUGS = ["UpperInclusive", "LowerExclusive", "SeekLTInclusive", "PrefixNoCheck", "NextPrefixOffByOne", "ReuseUpperInclusive"]
GEN_P, GEN_S = 3, 2      # universe of the TLC-generated scripts
DRV_P, DRV_S = 4, 3      # universe of the driver-enumerated scripts


def design_points(run):
    vlib.sany(SPECDIR, "InternalIterGen")
    vlib.sany(SPECDIR, "InternalIterTrace")
    quick = run.tier == "quick"
    consts = dict(P=2, S=1, Bug="none", MaxN=(2 if quick else 3), Seqs=2, Kinds=({1} if quick else {0, 1}), MaxOps=1000000, Emit=False)
    box = {}

    def design():
        box["r"] = design_run(SPECDIR, "InternalIterGen", cfg_text(consts, invariants=["Inv"], view="View"),
                              workers=max(2, WORKERS - 4), timeout=2400, heap="10g")
    # the exhaustive run and the seeded-bug self tests are independent TLC runs: side by side
    with Phase(run, "design+seeded_bugs"):
        in_parallel(design, lambda: run_bug_cfgs(run, SPECDIR, "InternalIterGen", PT_BUGS, workers=1 if quick else 2))
    run.add_design("InternalIterGen exhaustive (P=2,S=1: 4 user keys; seqnums 1..2; kinds %s; <=%d entries; every bound pair; "
                   "every in-contract call sequence incl. SetBounds to every bound pair on the same iterator)"
                   % (sorted(consts["Kinds"]), consts["MaxN"]), box["r"])


def gen_point_scripts(run, walks, path):
    consts = dict(P=GEN_P, S=GEN_S, Bug="none", MaxN=6, Seqs=3, Kinds={0, 1, 2, 7, 18}, MaxOps=14, Emit=True)
    scripts = sim_scripts(run, SPECDIR, "InternalIterGen", "sim.cfg", cfg_text(consts, invariants=["Inv", "EmitInv"]),
                          walks=walks, depth=60, seed=run.seed, label="InternalIterGen/simulate")
    with open(path, "w") as o:
        for s in scripts:
            o.write(json.dumps(s) + "\n")
    return len(scripts)


def corrupt_it(l):
    if not l.startswith('{"f"') and '"op":"it"' not in l:
        return None
    e = json.loads(l)
    if e.get("op") != "it":
        return None
    r = e["res"]
    if len(r) == 4:
        e["res"] = [r[0], r[1] + 1, r[2], r[3]]
    else:
        return None
    return json.dumps(e)


def droppable_it(l):
    if '"op":"it"' not in l:
        return False
    e = json.loads(l)
    return e["o"] in ("next", "prev") and len(e["res"]) == 4


def seg_stats(files, opnames=("it", "fit")):
    """evaluations = logged results decided by TLC; distinct non-trivial segments"""
    evals, distinct = 0, set()
    h, n, nn, big = None, 0, 0, False

    def close():
        if h is not None and big and n >= 5 and nn >= 2:
            distinct.add(h.hexdigest())
    for f in files:
        for l in open(f):
            if '"op":"table"' in l or '"op":"levels"' in l or '"op":"case"' in l:
                close()
                h, n, nn = vlib.hashlib.sha1(l.encode()), 0, 0
                big = l.count("[") >= 4
                continue
            if h is None:
                continue
            h.update(l.encode())
            for o in opnames:
                if '"op":"%s"' % o in l:
                    evals += 1
                    n += 1
                    if '"res":[]' not in l:
                        nn += 1
                    break
    close()
    return evals, len(distinct)


def run_c25(run):
    quick = run.tier == "quick"
    design_points(run)
    binp = vlib.build_driver("internal/verif/sstdrv", name="internal_verif_sstdrv" + DRVSUFFIX)
    tdir = vlib.scratch("verif.sst25.")
    sf = os.path.join(tdir, "scripts.jsonl")
    with Phase(run, "generate"):
        nscripts = gen_point_scripts(run, 100 if quick else 300, sf)
    env = dict(VERIF_OUT=tdir, VERIF_SEED=str(run.seed), VERIF_TIER=run.tier, VERIF_SCRIPTFILE=sf,
               VERIF_GP=str(GEN_P), VERIF_GS=str(GEN_S), VERIF_P=str(DRV_P), VERIF_S=str(DRV_S),
               VERIF_TABLES=str(10 if quick else 40), VERIF_OPS=str(20 if quick else 30))
    with Phase(run, "driver"):
        out, info = run_go(binp, "TestC25", env)
    fails = [l for l in out.splitlines() if l.startswith("DRIVER-FAIL")]
    # the TLC-generated scripts and the driver's scripts live in different universes: two trace configs
    gfiles = sorted(glob.glob(os.path.join(tdir, "c25g-*.ndjson")))
    dfiles = sorted(glob.glob(os.path.join(tdir, "c25d-*.ndjson")))
    if not gfiles or not dfiles:
        raise vlib.Inconclusive("no traces produced")
    vocab = {"it", "fit", "fail"}
    with Phase(run, "validate"):
        ev1, rej1 = validate_files(run, SPECDIR, "InternalIterTrace", "t.cfg", trace_cfg(GEN_P, GEN_S), gfiles, vocab, "C25/tlc-generated")
        ev2, rej2 = validate_files(run, SPECDIR, "InternalIterTrace", "t.cfg", trace_cfg(DRV_P, DRV_S), dfiles, vocab, "C25/driver-generated")
    if rej1 + rej2 == 0:
        with Phase(run, "binding_demo"):
            binding_demo(run, SPECDIR, "InternalIterTrace", "t.cfg", trace_cfg(DRV_P, DRV_S), dfiles, corrupt_it, droppable_it)
    evals, distinct = seg_stats(gfiles + dfiles)
    run.cov["evaluations"] = evals
    run.cov["distinct_nontrivial"] = distinct
    run.cov["rule"] = ("evaluations = positioning calls on real sstable point/range-del/range-key iterators whose logged result TLC "
                       "compared with InternalIter.tla; a case = one (table content, writer configuration) pair; non-trivial when the "
                       "table holds >= 2 entries/fragments and the case has >= 5 calls of which >= 2 return an entry; distinct by content hash")
    run.cov["trace_events"] = ev1 + ev2
    run.cov["tlc_generated_scripts_replayed"] = nscripts
    run.cov["driver"] = info
    run.cov["writer_failures"] = fails[:5]
    for f in (gfiles[:1] + dfiles[:1]):
        run.sample({"trace": os.path.basename(f), "first_events": [json.loads(l) for l in list(open(f))[:5]]})
    run.assumptions += [
        "keys: testkeys comparer, ranks over P prefixes x (bare + S suffixes); three byte shapes (short, mixed lengths, 40-byte shared prefix); "
        "values: id 0 = empty, other ids with id-dependent padding of 0..5000 bytes (> block size)",
        "positioning calls are issued only inside the documented caller contract of base.InternalIterator (TLC counts out-of-contract "
        "steps; any makes the run inconclusive); Prev after an exhausted NextPrefix is treated as outside the contract",
        "in prefix-iteration mode a call that leaves the prefix may return nil or the next key (outcome set); inside the prefix the result is exact",
        "iterator reuse: SetBounds on the same real iterator (windows moving forward, backward and arbitrarily; scans run to exhaustion or "
        "abandoned early; seeks inside the block left loaded) is modelled as a new iterator with the new bounds: whatever the implementation "
        "keeps across SetBounds must not be observable; after SetBounds only absolute positioning is in contract and TrySeekUsingNext may not "
        "refer to a seek made under the previous bounds",
        "the options matrix is enumerated by the driver (the spec is option-free): " + str(info.get("configs")) + " configurations in this tier",
        "TLC's verdict on each step is authoritative; the Go driver only executes and records",
    ]


def corrupt_corrupt(l):
    if '"op":"corrupt"' not in l or '"open":"ok"' not in l:
        return None
    e = json.loads(l)
    for i, r in enumerate(e["res"]):
        if len(r) == 4 and r[0] >= 0:
            e["res"][i] = [r[0], r[1], r[2], r[3] + 1]
            return json.dumps(e)
    return None


RETRY_BUGS = ["Retry_StaleBlockKept", "Retry_ErrorNotSticky"]


def run_c27(run):
    quick = run.tier == "quick"
    vlib.sany(SPECDIR, "InternalIterGen")
    vlib.sany(SPECDIR, "InternalIterTrace")
    vlib.sany(SPECDIR, "BlockRetry")
    # the oracle of this fault enumeration is the C25 list model: its own properties, small scope
    consts = dict(P=2, S=1, Bug="none", MaxN=2, Seqs=2, Kinds={1}, MaxOps=1000000, Emit=False)
    box = {}

    def design():
        box["gen"] = design_run(SPECDIR, "InternalIterGen", cfg_text(consts, invariants=["Inv"], view="View"),
                                workers=max(2, WORKERS // 2), timeout=2400, heap="10g")

    def design_retry():
        # calls continuing on one iterator after a failed block load: every block partition of N keys, every unreadable
        # block, every call sequence (the state space is finite: no depth bound)
        box["retry"] = design_run(SPECDIR, "BlockRetry", cfg_text(dict(N=(5 if quick else 7), Bug="none"), invariants=["Inv"]),
                                  workers=2, timeout=2400, heap="4g")

    def bugs():
        run_bug_cfgs(run, SPECDIR, "InternalIterGen", ["UpperInclusive", "SeekLTInclusive"], workers=1 if quick else 2)
        run_bug_cfgs(run, SPECDIR, "BlockRetry", RETRY_BUGS, workers=1)

    binp = vlib.build_driver("internal/verif/sstdrv", name="internal_verif_sstdrv" + DRVSUFFIX)
    tdir = vlib.scratch("verif.sst27.")
    allf = list(range(3, 11))           # sstable.TableFormatPebblev1 .. Pebblev8
    if quick:
        fixed = [6, 8, 10]              # Pebblev4 (newest row format), v6 (checked footer), v8 (newest)
        rest = [f for f in allf if f not in fixed]
        formats = fixed + [rest[run.seed % len(rest)]]
    else:
        formats = allf
    env = dict(VERIF_OUT=tdir, VERIF_SEED=str(run.seed), VERIF_P="3", VERIF_S="2", VERIF_TABLES=str(1 if quick else 4),
               VERIF_FORMATS=",".join(str(f) for f in formats),
               # calls continuing after an error: tables per format (alternating single-level / two-level index), offset stride
               VERIF_RETRY_TABLES=str(2 if quick else 4), VERIF_RETRY_STRIDE=str(5 if quick else 2),
               VERIF_DB_TABLES=str(2 if quick else 6), VERIF_DB_STRIDE=str(7 if quick else 2),
               VERIF_DRV_WORKERS=str(max(2, min(6, WORKERS // 2))))
    res = {}

    def drive():
        with Phase(run, "driver"):
            res["out"], res["info"] = run_go(binp, "TestC27", env)
    # the design-level TLC runs and the driver are independent: side by side
    with Phase(run, "design+seeded_bugs+driver"):
        in_parallel(design, design_retry, bugs, drive)
    run.add_design("InternalIterGen exhaustive (oracle sanity: 4 user keys, seqnums 1..2, <=2 entries)", box["gen"])
    run.add_design("BlockRetry exhaustive (keys 1..N cut into blocks in every way, every unreadable block or none, every sequence of "
                   "First/Last/SeekGE/SeekLT/Next/Prev on ONE iterator: each result is the list model's or an error, also after an error)",
                   box["retry"])
    out, info = res["out"], res["info"]
    files = sorted(glob.glob(os.path.join(tdir, "c27-*.ndjson")))
    if not files:
        raise vlib.Inconclusive("no traces produced")
    cfgb = trace_cfg(3, 2, keepexp=True)
    with Phase(run, "validate"):
        ev, rej = validate_files(run, SPECDIR, "InternalIterTrace", "t.cfg", cfgb, files, {"it", "fit", "corrupt", "fail"}, "C27",
                                 batch_lines=30000, sig_fields=("op", "o", "pat"))
    if rej == 0:
        with Phase(run, "binding_demo"):
            small = os.path.join(tdir, "demo.nd")
            with open(small, "w") as o:
                for i, l in enumerate(open(files[0])):
                    if i < 1500:
                        o.write(l)
            binding_demo(run, SPECDIR, "InternalIterTrace", "t.cfg", cfgb, [small], corrupt_corrupt, droppable_it)
    steps = 0
    for f in files:
        for l in open(f):
            if '"op":"corrupt"' in l and '"open":"ok"' in l:
                steps += l.count("],[") + 1
    run.cov["evaluations"] = steps
    run.cov["distinct_nontrivial"] = info.get("corruptions", 0) - info.get("openerr", 0)
    run.cov["rule"] = ("one case = one (table, byte offset, corruption pattern) whose altered bytes differ from the original; evaluations = step results "
                       "of the re-run script that TLC compared with {model result} u {error}; non-trivial = the corrupted table still opened, so "
                       "its iterators were actually exercised (the others are rejected at open, also logged and accepted)")
    run.cov["driver"] = info
    run.cov["results_after_an_error"] = info.get("resultsaftererror", 0)
    run.cov["formats"] = formats
    run.cov["exhaustive_over_offsets"] = True
    run.sample({"trace": os.path.basename(files[0]), "first_events": [json.loads(l) for l in list(open(files[0]))[:3]]})
    run.assumptions += [
        "every byte offset of each table x {flip one bit, zero, 0xFF, swap with neighbour}; tables are small (about 1-2 KiB: several data blocks, "
        "two-level index in some, bloom filter, value blocks, range-del and range-key blocks, properties)",
        "calls continuing on the SAME iterator after an error (BlockRetry.tla): for tables with >= 3 data blocks (single-level and two-level "
        "index, row and columnar formats) one iterator runs, for every anchor (First, Last, two middle seeks) and every SeekGE/SeekLT/SeekPrefixGE "
        "key: anchor, seek, the same seek again (also with TrySeekUsingNext where legal), a relative step, the seek again, SetBounds and the seek "
        "again; every result after an error must still be the model's result or an error. These runs cover every %s-th byte offset with one "
        "pattern each (rotating); the same shape is run through a pebble.Iterator over a read-only DB holding the altered table (%s-th offset), "
        "whose levelIter keeps the table's iterator across seeks" % (env["VERIF_RETRY_STRIDE"], env["VERIF_DB_STRIDE"]),
        "a relative step (Next/Prev) after an error is compared with the step from the position the failed call has on the pristine table: "
        "the code returns an error there (the iterator must be re-seeked); a key other than that one is rejected",
        "DB segments: the table{} event holds the user-level content (one SET per user key); sequence numbers are not observable through "
        "pebble.Iterator and are logged as the constant 1",
        "formats before Pebblev6 end in the RocksDB-style footer, which has no checksum: altering its version field makes the reader silently decode "
        "values differently (observed: Pebblev1 read as Pebblev3). The checked footer of Pebblev6+ is the fix; the legacy footer bytes (last 53) "
        "of formats <= Pebblev5 are therefore excluded from the enumeration (VERIF_LEGACY_FOOTER=1 includes them)",
        "a Go panic while reading a corrupted table is not accepted as 'an error': it is logged as a distinct result that the spec rejects",
        "blob files are not covered",
        "which bytes a checksum covers is not modelled: a harmless corruption simply yields the original results",
    ]


# ---------------------------------------------------------------------------------------------
# C33: merged iteration over levels
MG_BUGS = ["Merge_RangeDelLE", "Merge_NoLevelInvariant", "Merge_SnapshotIgnored", "Merge_CoversNewest"]
MG_P, MG_S = 3, 1
MD_P, MD_S = 4, 2


def run_c33(run):
    quick = run.tier == "quick"
    vlib.sany(SPECDIR, "MergeGen")
    vlib.sany(SPECDIR, "InternalIterTrace")
    # two scopes: many levels x 2 writes, and few levels x 3 writes (one level holding two overlapping tombstones and a
    # point between them in sequence number needs 3 writes); snapshots 2, newest-write and latest
    # (P, S, levels, writes)
    scopes = [(2, 1, 2, 2), (3, 0, 1, 3)] if quick else [(2, 1, 3, 2), (2, 1, 2, 3)]
    res = {}

    def one(pp, ss, nlv, mw):
        c = dict(P=pp, S=ss, Bug="none", NL=nlv, MaxW=mw, Kinds={1}, MaxOps=0, Emit=False)
        res[(pp, ss, nlv, mw)] = design_run(SPECDIR, "MergeGen", cfg_text(c, invariants=["Inv"], view="View"),
                                    workers=max(2, WORKERS // 2 - 2), timeout=2400, heap="6g")
    with Phase(run, "design+seeded_bugs"):
        in_parallel(*([(lambda sc=sc: one(*sc)) for sc in scopes] +
                      [lambda: run_bug_cfgs(run, SPECDIR, "MergeGen", MG_BUGS, workers=1 if quick else 2),
                       lambda: run_bug_cfgs(run, SPECDIR, "InternalIterGen", ["UpperInclusive", "ReuseUpperInclusive"], workers=1 if quick else 2)]))
    for (pp, ss, nlv, mw) in scopes:
        run.add_design("MergeGen exhaustive (%d user keys, %d level(s), <=%d writes newest-first incl. shared seqnums: points and range "
                       "tombstones, file split none/third/middle per level, read seqnums 2, newest write and latest)"
                       % (pp * (ss + 1), nlv, mw), res[(pp, ss, nlv, mw)])
    binp = vlib.build_driver(".", name="root" + DRVSUFFIX)
    tdir = vlib.scratch("verif.sst33.")
    sf = os.path.join(tdir, "scripts.jsonl")
    # wide (3 levels x 5 writes) and deep (1-2 levels x 6 writes: several tombstones and versions inside one level) layouts
    walks = 50 if quick else 400
    gens = [("wide", dict(P=MG_P, S=MG_S, Bug="none", NL=3, MaxW=5, Kinds={0, 1, 2}, MaxOps=10, Emit=True), walks),
            ("deep", dict(P=MG_P, S=MG_S, Bug="none", NL=2, MaxW=6, Kinds={0, 1, 2}, MaxOps=10, Emit=True), walks)]
    scripts, glock = [], threading.Lock()

    def gen(label, gc, n):
        r = sim_scripts(run, SPECDIR, "MergeGen", "sim.cfg", cfg_text(gc, invariants=["EmitInv"]),
                        walks=n, depth=60, seed=run.seed, label="MergeGen/simulate/" + label)
        with glock:
            scripts.extend(r)
    with Phase(run, "generate"):
        in_parallel(*[(lambda g=g: gen(*g)) for g in gens])
    scripts.sort(key=lambda sc: json.dumps(sc, sort_keys=True))
    with open(sf, "w") as o:
        for sc in scripts:
            o.write(json.dumps(sc) + "\n")
    env = dict(VERIF_OUT=tdir, VERIF_SEED=str(run.seed), VERIF_TIER=run.tier, VERIF_SCRIPTFILE=sf, VERIF_GP=str(MG_P), VERIF_GS=str(MG_S),
               VERIF_P=str(MD_P), VERIF_S=str(MD_S), VERIF_LAYOUTS=str(60 if quick else 300), VERIF_OPS=str(25 if quick else 60))
    with Phase(run, "driver"):
        out, info = run_go(binp, "TestVSstC33", env)
    if "DRIVER-PANIC" in out:
        run.cov["panics"] = [l for l in out.splitlines() if l.startswith("DRIVER-PANIC")][:5]
    gfiles = sorted(glob.glob(os.path.join(tdir, "c33g-*.ndjson")))
    dfiles = sorted(glob.glob(os.path.join(tdir, "c33d-*.ndjson")))
    if not gfiles or not dfiles:
        raise vlib.Inconclusive("no traces produced")
    vocab = {"it", "fail"}
    with Phase(run, "validate"):
        ev1, rej1 = validate_files(run, SPECDIR, "InternalIterTrace", "t.cfg", trace_cfg(MG_P, MG_S), gfiles, vocab, "C33/tlc-generated",
                                   sig_fields=("op", "o"))
        ev2, rej2 = validate_files(run, SPECDIR, "InternalIterTrace", "t.cfg", trace_cfg(MD_P, MD_S), dfiles, vocab, "C33/driver-generated",
                                   sig_fields=("op", "o"))
    if rej1 + rej2 == 0:
        with Phase(run, "binding_demo"):
            small = os.path.join(tdir, "demo.nd")
            with open(small, "w") as o:
                for i, l in enumerate(open(dfiles[0])):
                    if i < 2000:
                        o.write(l)
            binding_demo(run, SPECDIR, "InternalIterTrace", "t.cfg", trace_cfg(MD_P, MD_S), [small], corrupt_it, droppable_it)
    evals, distinct = seg_stats(gfiles + dfiles)
    run.cov["evaluations"] = evals
    run.cov["distinct_nontrivial"] = distinct
    run.cov["rule"] = ("evaluations = positioning calls on the real mergingIter/levelIter (v1) and mergingIterV2/levelIterV2 (v2) stacks whose result "
                       "TLC compared with MergedVisible; a case = one (layout, table configuration, stack) triple; non-trivial when the layout has "
                       ">= 2 files/entries and the case has >= 5 calls of which >= 2 return an entry; distinct by content hash")
    run.cov["trace_events"] = ev1 + ev2
    run.cov["tlc_generated_layouts_replayed"] = len(scripts)
    run.cov["driver"] = info
    run.sample({"trace": os.path.basename(dfiles[0]), "first_events": [json.loads(l) for l in list(open(dfiles[0]))[:4]]})
    run.assumptions += [
        "levels are built from real sstables on a MemFS (formats Pebblev1/v4/newest, block sizes 1..4096); 1-4 levels, some as L0 sublevels; "
        "tombstones are fragmented and clipped to their file as compactions write them; every layout is checked by TLC against the level invariant "
        "(LevelInvariant in InternalIter.tla) before its results are decided",
        "the merging iterator skips keys invisible at the snapshot and keys shadowed by a newer visible range tombstone; all other internal keys "
        "(every kind, every version) are returned in internal-key order",
        "calls are issued only inside the documented caller contract (as C25); bounds are given to the merging iterator and the level iterators alike; "
        "the same merging iterator is reused through SetBounds (modelled as a new iterator with the new bounds)",
        "every layout is additionally scanned systematically on iterator 3/9: full forward and reverse scans, a direction switch in both orders at "
        "(a sample of) its user keys, and a sweep of windows through SetBounds; half of the seeded layouts are 'dense' (2-4 adjacent user keys, "
        "several overlapping tombstones and versions inside one level, read sequence number anywhere in the history)",
        "batch and memtable levels are not part of these layouts (covered at DB level by the KV engine)",
    ]


# ---------------------------------------------------------------------------------------------
# C29: virtual tables, transforms, CopySpan
def corrupt_copyspan(l):
    if '"op":"copyspan"' in l:
        e = json.loads(l)
        if len(e["out"]) >= 1 and e["out"][0][0] >= 0:
            e["out"] = e["out"][1:] + [[e["out"][0][0], e["out"][0][1] + 7, 1, 1]]
            return json.dumps(e)
        return None
    return corrupt_it(l)


def run_c29(run):
    quick = run.tier == "quick"
    vlib.sany(SPECDIR, "VirtGen")
    vlib.sany(SPECDIR, "InternalIterTrace")
    consts = dict(P=2, S=2, Bug="none", MaxN=(2 if quick else 3), Seqs=2)
    with Phase(run, "design"):
        r = design_run(SPECDIR, "VirtGen", cfg_text(consts, invariants=["Inv"]), workers=WORKERS, timeout=2400, heap="8g")
    run.add_design("VirtGen exhaustive (6 user keys, <=%d entries, every virtual bound pair incl. inclusive upper bounds, every synthetic "
                   "suffix/seqnum permitted by the preconditions; CopySpan acceptance)" % consts["MaxN"], r)
    # CopySpan's block-copy mechanism over block sizes and cache states (CopyBatch.tla)
    cb = dict(MaxB=(4 if quick else 6), Sizes={1, 2, 4}, Target=3, Bug="none")
    with Phase(run, "design_copybatch"):
        r2 = design_run(SPECDIR, "CopyBatch", cfg_text(cb, invariants=["Inv"]), workers=max(2, WORKERS // 2), timeout=2400, heap="4g")
    run.add_design("CopyBatch exhaustive (<=%d data blocks of sizes 1/2/4 against a read target of 3, every cache state, every block span: "
                   "every block of the span copied exactly once, in order)" % cb["MaxB"], r2)
    with Phase(run, "seeded_bugs"):
        in_parallel(lambda: run_bug_cfgs(run, SPECDIR, "VirtGen", ["Virt_SuffixNotApplied", "Virt_VirtLowerIgnored"]),
                    lambda: run_bug_cfgs(run, SPECDIR, "InternalIterGen", ["LowerExclusive", "UpperInclusive", "ReuseUpperInclusive"]),
                    lambda: run_bug_cfgs(run, SPECDIR, "CopyBatch", ["Copy_ExtraIncrement", "Copy_RunRestartsAtHit"], workers=1))
    binp = vlib.build_driver("internal/verif/sstdrv", name="internal_verif_sstdrv" + DRVSUFFIX)
    tdir = vlib.scratch("verif.sst29.")
    sf = os.path.join(tdir, "scripts.jsonl")
    gc = dict(P=DRV_P, S=DRV_S, Bug="none", MaxN=6, Seqs=3, Kinds={0, 1, 2, 18}, MaxOps=1, Emit=True)
    with Phase(run, "generate"):
        scripts = sim_scripts(run, SPECDIR, "InternalIterGen", "sim.cfg", cfg_text(gc, invariants=["EmitInv"]),
                              walks=(40 if quick else 150), depth=30, seed=run.seed, label="InternalIterGen/simulate(tables)")
    with open(sf, "w") as o:
        for sc in scripts:
            o.write(json.dumps(sc) + "\n")
    env = dict(VERIF_OUT=tdir, VERIF_SEED=str(run.seed), VERIF_TIER=run.tier, VERIF_SCRIPTFILE=sf, VERIF_P=str(DRV_P), VERIF_S=str(DRV_S),
               VERIF_TABLES=str(15 if quick else 60), VERIF_OPS=str(18 if quick else 30),
               # tables whose cold data-block runs exceed CopySpan's read-size target once and several times
               VERIF_BIGCOPY=str(2 if quick else 8))
    with Phase(run, "driver"):
        out, info = run_go(binp, "TestC29", env)
    files = sorted(glob.glob(os.path.join(tdir, "c29-*.ndjson")))
    if not files:
        raise vlib.Inconclusive("no traces produced")
    cfgb = trace_cfg(DRV_P, DRV_S)
    with Phase(run, "validate"):
        ev, rej = validate_files(run, SPECDIR, "InternalIterTrace", "t.cfg", cfgb, files, {"it", "fit", "copyspan", "fail"}, "C29")
    if rej == 0:
        with Phase(run, "binding_demo"):
            small = demo_sample(files, os.path.join(tdir, "demo.nd"), corrupt_copyspan, 2500)
            binding_demo(run, SPECDIR, "InternalIterTrace", "t.cfg", cfgb, [small], corrupt_copyspan, droppable_it)
    evals, distinct = seg_stats(files, opnames=("it", "fit", "copyspan"))
    nv = dict(n=0, bounded=0, incl=0, ssuf=0, sseq=0)
    for f in files:
        for l in open(f):
            if '"op":"virt"' in l:
                e = json.loads(l)
                nv["n"] += 1
                nv["bounded"] += int(e["vlo"] > 0 or e["vhi"] < DRV_P * (DRV_S + 1))
                nv["incl"] += int(e["vhiincl"])
                nv["ssuf"] += int(e["ssuf"] > 0)
                nv["sseq"] += int(e["sseq"] > 0)
    run.cov["evaluations"] = evals
    run.cov["distinct_nontrivial"] = distinct
    run.cov["rule"] = ("evaluations = iterator results and CopySpan outputs decided by TLC; a case = one (table, virtual/transform parameters, writer "
                       "configuration); non-trivial and distinct as in C25")
    run.cov["virt_params"] = nv
    run.cov["driver"] = info
    run.cov["trace_events"] = ev
    run.sample({"trace": os.path.basename(files[0]), "first_events": [json.loads(l) for l in list(open(files[0]))[:5]]})
    run.assumptions += [
        "documented preconditions are the generator's enabling conditions: synthetic suffix only on tables with one suffixed key per prefix, no range "
        "deletions, only RangeKeySets, and a suffix that sorts before every existing one; synthetic seqnum only on tables with one version per user "
        "key; no synthetic prefix on tables with range keys; an inclusive virtual upper bound is not contained in any span",
        "the caller's iterator bounds overlap the virtual table and a seek key does not lie beyond the table's bounds in the direction of the seek "
        "(what levelIter guarantees; ConstrainBounds documents the assumption); seeks before the virtual lower bound / after the upper bound in the "
        "clamped direction are exercised",
        "a synthetic prefix is a monotone bijection of user keys: identity on ranks; the driver prepends it to every key it passes and strips and "
        "verifies it on every key it gets back",
        "CopySpan is run on the physical table (it is not transform-aware); accepted outputs: any subsequence of the input containing the whole span",
        "CopySpan dimensions named by CopyBatch.tla: the reader's block cache is cold, or holds the blocks of a drawn set of keys (read through "
        "the same cache before the copy); besides the small tables, %s tables of 0.3-2 MiB (uncompressed values of up to 300 KB, one entry per "
        "data block, no value blocks/spans so that the block-copy path is taken) are copied under the newest columnar format, another columnar "
        "format and the newest row format (whole span, interior span, random span, whole span with warm blocks): their cold runs exceed the "
        "256 KiB read-size target of copyDataBlocks once and several times (max read batches in this run: %s)"
        % (env["VERIF_BIGCOPY"], info.get("maxreadbatches")),
        "virtual tables through Excise at DB level are the KV engine's C36",
    ]


# ---------------------------------------------------------------------------------------------
C_NOTE = ("Trusted: TLC; InternalIter.tla as the statement of intended behaviour; the Go driver's rank<->bytes and value id<->bytes "
          "mappings and its recording of results. Bounded: small key universes, tables of <= 24 entries, the enumerated option matrix.")
C_TECH = "TLA+ list model (InternalIter.tla) + TLC-generated and driver-enumerated inputs run on the real code + TLC trace validation of every result"


def REGISTER(reg):
    reg("C25", "SSTables read back what was written under any writer options", run_c25,
        "Tables (points of every kind with many versions per prefix, range-deletion and range-key fragments) generated by TLC simulation of "
        "InternalIterGen and by a seeded driver are written with the real RawWriter under a matrix of table formats x block/index sizes x "
        "restart intervals x compression x filter policies x value blocks x checksum kinds and read with the real point and fragment "
        "iterators (First/Last/SeekGE/SeekLT/SeekPrefixGE/Next/Prev/NextPrefix with bounds, TrySeekUsingNext where legal, and the same iterator "
        "reused through SetBounds over moving windows); TLC decides every "
        "returned entry against the sorted-list model; the model's own clauses (never outside bounds/prefix, each call's specification, "
        "scan = filter, reuse = new iterator) are checked exhaustively in a small scope with 6 seeded-bug self tests.",
        C_NOTE, C_TECH, "DESIGN 6/C25", engine="sst")


    reg("C27", "Corrupted table files never yield wrong data", run_c27,
        "Fault enumeration: for small tables of the selected table formats (all formats in the thorough tier), every byte offset x {flip one bit, "
        "zero, 0xFF, swap with neighbour}; the table is reopened with the real reader and the full C25 op script (scans in both directions, "
        "every seek key, prefix seeks, NextPrefix, bounded iterator, range-del and range-key iterators, lazy value fetches) is re-run; TLC "
        "accepts a step only if its result is the model's result or an error - a silently different key, seqnum, kind or value is a rejected step. "
        "Calls that CONTINUE on the same iterator after an error are part of it: on tables with several data blocks (single-level and two-level "
        "index, row and columnar) one iterator runs anchor / seek / the same seek again / relative step / seek again / SetBounds + seek for every "
        "anchor and seek key over a sample of the offsets, at the sstable iterators and through a pebble.Iterator over a DB holding the altered "
        "table; every result after the first error must still be the model's result or an error. BlockRetry.tla states this for a block-loading "
        "iterator mechanism (exhaustive over block partitions, unreadable block and call sequences; seeded bugs: stale block kept after a failed "
        "load, error not sticky).",
        C_NOTE + " Not covered: blob files; the unchecked RocksDB-style footer of formats before Pebblev6 (documented weakness, excluded).",
        C_TECH, "DESIGN 6/C27", level="fault_enumeration", engine="sst")


    reg("C33", "Merged internal iteration over levels matches the model", run_c33,
        "Multi-level layouts (points of every kind, range tombstones, shared sequence numbers, snapshots) generated by TLC simulation of MergeGen "
        "and by a seeded driver (per-key seqnum thresholds = arbitrary compaction histories) are materialised as real sstables; the real "
        "mergingIter+levelIter and mergingIterV2+levelIterV2 stacks are driven through First/Last/SeekGE/SeekLT/SeekPrefixGE/Next/Prev/NextPrefix "
        "with bounds, SetBounds reuse, systematic full scans and direction switches at every sampled key; TLC checks each layout against the LSM level invariant and decides every returned key against "
        "MergedVisible. The model's deletion rules (per-level mechanism rule on fragments with several sequence numbers = declarative rule; file "
        "splits irrelevant) are checked exhaustively in two small scopes (levels x 2 writes, one level x 3 writes) with seeded-bug self tests.",
        C_NOTE, C_TECH, "DESIGN 6/C33", engine="sst")


    reg("C29", "Virtual tables, transforms and span copies present the right keys", run_c29,
        "Tables (from TLC simulation and a seeded driver) are written with the real writer under a spread of formats/options and read through "
        "real virtual readers (ReadEnv.Virtual with exclusive and inclusive upper bounds), synthetic prefix, suffix and sequence number "
        "(IterTransforms / FragmentIterTransforms), for points, range deletions and range keys; CopySpan outputs are read back. TLC decides every "
        "result against Virtual(list, bounds, suffix, seqnum) = filter/map of the list model and CopySpanOK; the properties of Virtual and the "
        "CopySpan acceptance predicate are checked exhaustively in a small scope with seeded-bug self tests. CopySpan is also run with cold and "
        "partly warm block caches and on tables of 0.3-2 MiB whose runs of cold data blocks exceed the writer's 256 KiB read-size target once and "
        "several times (dimensions named by CopyBatch.tla, the block-copy mechanism checked exhaustively over block sizes x cache states, seeded "
        "bugs: extra increment per batch, run not reset at a cache hit).",
        C_NOTE, C_TECH, "DESIGN 6/C29", engine="sst")


SPEC_MODULES = [("InternalIter", "VirtGen"), ("InternalIter", "MergeGen"), ("InternalIter", "InternalIterGen"), ("InternalIter", "InternalIterTrace"),
                ("InternalIter", "BlockRetry"), ("InternalIter", "CopyBatch")]
