"""Crash engine: C10, C11, C12, C13, C22.
  design : Durability.tla (WAL / memtable rotation / flush / MANIFEST edit / WAL deletion / crash / recovery),
           exhaustive + four seeded-bug configs that TLC must catch
  binding: dbdrv TestCrash runs seeded histories on a crashable MemFS; before every filesystem write op (and after
           every call returns) it takes crash clones with chosen survival subsets of the unsynced directory entries
           and 4 KiB blocks, reopens each clone with the real Open, dumps the recovered state -> `crashprobe` events;
           TLC validates every probe against KV.tla's history (KVTrace: prefix / superset-of-acked / version rules)."""
import glob, json, os, shutil
import vlib
from engines import kv

DUR = os.path.join(vlib.SPEC, "Durability")
SPEC_MODULES = [("Durability", "Durability"), ("Durability", "ManifestRot")]

BUGS = [("Bug_AckBeforeSync.cfg", "AckedRecovered"), ("Bug_DelWALEarly.cfg", None),
        ("Bug_NoSSTSync.cfg", "OpenSucceeds"), ("Bug_NoWALDirSync.cfg", None)]

PROPS = {
    "C10": dict(runs=[dict(profile="C10", cfgs="crash1,crash2,crashvs,crashold", env={}, scripts_mult=2),
                      dict(profile="CONC", cfgs="crash1,crash2", env={}, scripts_mult=1)], checked=["crash10"]),
    "C11": dict(runs=[dict(profile="C11", cfgs="crash1,crash2,crashvs,crashold", env={}, scripts_mult=2),
                      dict(profile="C11F", cfgs="crash2,crash1", env={"VERIF_EVERY": "2"}, finding=True, scripts=5)],
                checked=["crash11"]),
    "C12": dict(runs=[dict(profile="C12", cfgs="crash1,crashnowal,crash2,crashnowalauto", env={}),
                      dict(profile="CONC", cfgs="crashnowal,crashnowalauto,crash1", env={}, scripts_mult=1.5)], checked=["crash12"]),
    "C13": dict(runs=[dict(profile="C13", cfgs="crash1,crash2,crashvs,crashnowal", env={"VERIF_DURREAD": "1", "VERIF_EVERY": "0"}, scripts_mult=4),
                      dict(profile="C13F", cfgs="crash2,crash1", env={"VERIF_DURREAD": "1", "VERIF_EVERY": "0"}, finding=True, scripts=3)],
                checked=["crash13"]),
    "C22": dict(runs=[dict(profile="C22", cfgs="crashnowal,crash1,crashnowalauto,crash2",
                           env={"VERIF_CLASSES": "manifest,marker,dir", "VERIF_EVERY": "3", "VERIF_FILES": "1", "VERIF_MAXSUBSET": "5"})],
                checked=["crash22"]),
}


ROT_BUGS = [("BugRot_MarkerBeforeSync.cfg", "MarkerNeverDangling"), ("BugRot_NoManifestDirSync.cfg", "MarkerNeverDangling"),
            ("BugRot_NoMarkerDirSync.cfg", None)]


def design_rot(run):
    """C22: MANIFEST append / rotation / marker protocol (ManifestRot.tla)"""
    vlib.sany(DUR, "ManifestRot")
    for cfg, expect in ROT_BUGS:
        r = vlib.tlc_must_fail(DUR, "ManifestRot", cfg, expect=expect, workers=2, timeout=300)
        run.design["ManifestRot/" + cfg] = dict(caught=r.violation, generated=r.generated)
    cfg = open(os.path.join(DUR, "ManifestRot.cfg")).read()
    if run.tier != "quick":
        cfg = cfg.replace("MaxEdits = 4", "MaxEdits = 7").replace("RotateAt = {2, 3}", "RotateAt = {1, 3, 4, 7}")
    r = vlib.tlc_must_pass(DUR, "ManifestRot", "R.cfg", workers=4, timeout=600, extra_files={"R.cfg": cfg.encode()})
    run.add_design("ManifestRot", r)


def design_objsync(run):
    """C10/C12: the object provider's directory-sync skipping protocol (ObjSync.tla)"""
    vlib.sany(DUR, "ObjSync")
    for cfg in ("BugObj_CurrentCounter.cfg", "BugObj_CurrentCounterNoGuard.cfg"):
        r = vlib.tlc_must_fail(DUR, "ObjSync", cfg, expect="LastSyncSound", workers=2, timeout=300)
        run.design["ObjSync/" + cfg] = dict(caught=r.violation, generated=r.generated)
    cfg = open(os.path.join(DUR, "ObjSync.cfg")).read()
    if run.tier != "quick":
        cfg = cfg.replace("MaxObjs = 4", "MaxObjs = 6").replace("{p1, p2, p3}", "{p1, p2, p3, p4}")
    r = vlib.tlc_must_pass(DUR, "ObjSync", "O.cfg", workers=4, timeout=900, extra_files={"O.cfg": cfg.encode()})
    run.add_design("ObjSync", r)


def design(run):
    if run.prop == "C22":
        design_rot(run)
    if run.prop in ("C10", "C12"):
        design_objsync(run)
    vlib.sany(DUR, "Durability")
    for cfg, expect in BUGS:
        r = vlib.tlc_must_fail(DUR, "Durability", cfg, expect=expect, workers=4, timeout=600)
        run.design["Durability/" + cfg] = dict(caught=r.violation, generated=r.generated)
    if run.tier == "quick":
        r = vlib.tlc_must_pass(DUR, "Durability", "Durability.cfg", workers=vlib.NCPU, timeout=900, coverage=True)
        run.add_design("Durability(N=3,MaxRot=2)", r)
    else:
        cfg = open(os.path.join(DUR, "Durability.cfg")).read().replace("N = 3", "N = 5").replace("MaxRot = 2", "MaxRot = 3")
        r = vlib.tlc_must_pass(DUR, "Durability", "DurabilityT.cfg", workers=vlib.NCPU, timeout=3000, coverage=True,
                               extra_files={"DurabilityT.cfg": cfg.encode()}, heap="16g")
        run.add_design("Durability(N=5,MaxRot=3)", r)


def window_shape(path, line):
    """describe the history window of a rejected probe: is it the known 'direct ingest over non-durable commits' shape?"""
    evs = []
    with open(path) as f:
        for i, l in enumerate(f):
            if i >= line - 1:
                probe = json.loads(l)
                break
            evs.append(json.loads(l))
    win = []
    for e in evs:
        op = e.get("op")
        if op in ("durable", "reopen", "reset", "cleanreopen"):
            win = []
        elif op in ("commit", "ingest", "excise", "ingestexcise"):
            win.append(e)
    win += probe.get("pend", [])
    shape = "other"
    nondurable = unflushed = False
    for e in win:
        if e["op"] == "commit":
            nondurable = not e.get("sync", False)
            unflushed = True
        elif e["op"] in ("ingest", "excise", "ingestexcise"):
            if nondurable:
                shape = "direct-ingest-or-excise-over-nondurable-commit"
            elif unflushed and shape == "other":
                shape = "direct-ingest-or-excise-over-unflushed-commit"
    return shape, probe


def run_crash(run):
    prop = run.prop
    pp = PROPS[prop]
    quick = run.tier == "quick"
    design(run)
    binp = vlib.build_driver("internal/verif/dbdrv")
    checked = pp["checked"]
    all_files = []
    probes = 0
    opkinds = {}
    for rc in pp["runs"]:
        tdir = vlib.scratch("verif.crash.")
        scripts = rc.get("scripts") or int((4 if quick else 36) * rc.get("scripts_mult", 1))   # thorough: sized to finish well inside the driver timeout on a loaded machine
        env = dict(VERIF_OUT=tdir, VERIF_CRASHPROFILE=rc["profile"], VERIF_SEED=str(run.seed), VERIF_CONFIGS=rc["cfgs"],
                   VERIF_SCRIPTS=str(scripts), VERIF_STEPS=str(30 if quick else 45),
                   VERIF_MAXPROBES=str(2500 if quick else 6000))
        env.update(rc["env"])
        if not quick and "VERIF_MAXSUBSET" not in env:
            env["VERIF_MAXSUBSET"] = "5"
        code, out = vlib.run_driver(binp, "TestCrash", env=env, timeout=3400)
        if "DRIVER-DONE" not in out:
            bp = vlib.pebble_background_panic(out)
            if bp:
                run.violation({"kind": "pebble-background-panic", "label": rc["profile"]},
                              "a background goroutine of the store under test panicked during the crash workload: " + bp,
                              replay_obj={"cmd": "python3 /verif/vcheck run %s --tier %s --seed %d" % (run.prop, run.tier, run.seed),
                                          "output_tail": out[-4000:]})
                return
            raise vlib.Inconclusive("dbdrv TestCrash died:\n" + out[-3000:])
        for l in out.splitlines():
            if l.startswith("DRIVER-DONE"):
                probes += int(l.split("probes=")[1])
            if l.startswith("DRIVER-OPS"):
                for kvp in l.split()[1:]:
                    k, v = kvp.split("=")
                    opkinds[k] = opkinds.get(k, 0) + int(v)
        files = sorted(glob.glob(os.path.join(tdir, "*.ndjson")))
        all_files += files
        validate(run, files, checked, finding=rc.get("finding", False))
    evals = 0
    distinct = set()
    for f in all_files:
        for l in open(f):
            if l.startswith('{"at"') or '"op":"crashprobe"' in l or '"op":"reopen"' in l:
                e = json.loads(l)
                if e.get("op") in ("crashprobe", "reopen"):
                    evals += 1
                    if e.get("unsynced", 0) > 0 or e.get("pend"):
                        distinct.add(vlib.sha(json.dumps([e.get("state"), e.get("pend"), e.get("at"), e.get("choice"), os.path.basename(f)], sort_keys=True)))
    run.cov["evaluations"] = evals
    run.cov["distinct_nontrivial"] = len(distinct)
    run.cov["rule"] = ("one evaluation = one crash clone (crash point x survival subset) reopened with the real Open and validated by TLC; "
                       "non-trivial = taken while unsynced state existed or a call was in flight; distinct by (trace, crash point, subset, recovered state)")
    run.cov["fs_write_ops_by_class"] = opkinds
    run.cov["probes"] = probes
    if not run.violations and all_files:
        kv.binding_demo_crash(run, all_files, checked)
    for f in all_files[:1]:
        ls = []
        for l in open(f):
            e = json.loads(l)
            if e.get("op") == "crashprobe":
                e = {k: e[k] for k in ("op", "at", "choice", "unsynced", "pend", "state", "ok") if k in e}
            ls.append(e)
            if len(ls) >= 8:
                break
        run.sample({"trace": os.path.basename(f), "first_events": ls})
    run.assumptions += [
        "crash model = vfs.MemFS crash clones: synced state plus any chosen subset of unsynced directory entries and 4 KiB blocks (unsynced removals never take effect)",
        "with the WAL disabled only Flush acknowledges durability (Options.DisableWAL documents that crash recovery is not provided)",
        "single client goroutine; background flushes/compactions run concurrently and are probed through the same filesystem callbacks",
    ]


def validate(run, files, checked, finding=False):
    """like kv.validate_files, with known-finding classification by window shape"""
    wd = vlib.scratch("verif.crashv.")
    files = list(files)
    cfgb = kv.trace_cfg(checked)
    rejected = 0
    while files:
        allp = os.path.join(wd, "all.ndjson")
        vlib.concat_traces(files, allp)
        v = vlib.validate_trace(kv.SPECDIR, "KVTrace", "KVTraceRun.cfg", allp, timeout=3400,
                                extra_files={"KVTraceRun.cfg": cfgb}, heap="8g")
        if v.accepted:
            run.traces += len(files)
            return
        if v.tlc.violation or ("Error:" in v.tlc.out and "TraceAccepted" not in v.tlc.out):
            raise vlib.Inconclusive("trace spec error during validation:\n" + v.tlc.out[-3000:])
        c = 0
        hit = None
        for i, f in enumerate(files):
            k = sum(1 for _ in open(f)) + 1
            if c + k > v.hwm:
                hit = (i, f, v.hwm - c + 1)
                break
            c += k
        if hit is None:
            raise vlib.Inconclusive("cannot locate rejected line")
        i, f, line = hit
        run.traces += i
        ev = v.rejected_line
        if not isinstance(ev, dict) or ev.get("op") not in ("crashprobe", "reopen", "durread", "fail", "closedb"):
            raise vlib.Inconclusive("trace %s rejected at line %d outside the crash vocabulary: %s" % (f, line, str(ev)[:300]))
        shape = "other"
        if ev.get("op") in ("crashprobe", "reopen", "durread"):
            shape, _ = window_shape(f, line)
        keep = os.path.join(run.outdir, os.path.basename(f))
        shutil.copy(f, keep)
        small = {k: ev[k] for k in ("op", "at", "choice", "ok", "err", "pend", "state", "files", "vallowed") if k in ev}
        sig = {"kind": "crash-state-rejected", "op": ev.get("op"), "shape": shape, "ok": ev.get("ok", True)}
        run.violation(sig, "%s line %d: recovered state not allowed by the model (%s): %s" % (os.path.basename(f), line, shape, json.dumps(small)[:700]),
                      replay_obj={"trace": keep, "line": line, "checked": checked,
                                  "cmd": "python3 /verif/vcheck run %s --tier %s --seed %d" % (run.prop, run.tier, run.seed)})
        rejected += 1
        files = files[i + 1:]
        if rejected >= 6:
            return


def run_ratchet(run):
    """C40: format major version ratchets, crash-probed at every FS write op"""
    design(run)
    quick = run.tier == "quick"
    binp = vlib.build_driver("internal/verif/dbdrv")
    tdir = vlib.scratch("verif.ratchet.")
    env = dict(VERIF_OUT=tdir, VERIF_SEED=str(run.seed), VERIF_PAIRS=str(10 if quick else 0),
               VERIF_FAULTPAIRS=str(4 if quick else 24))
    code, out = vlib.run_driver(binp, "TestRatchet", env=env, timeout=3400)
    if "DRIVER-DONE" not in out:
        raise vlib.Inconclusive("dbdrv TestRatchet died:\n" + out[-3000:])
    for l in out.splitlines():
        if l.startswith("DRIVER-FAULTRUNS"):
            run.cov["single_fault_ratchets"] = int(l.split()[1])
    run.assumptions.append("single-fault runs: each filesystem write op of a ratchet (except WAL writes, MANIFEST appends and fsyncs, "
                           "whose failure is fatal by design) fails once; the failed call must leave the version within [from, to], "
                           "and the retry is held to everything a first successful ratchet is held to")
    files = sorted(glob.glob(os.path.join(tdir, "*.ndjson")))
    # the pair list of the evidence comes from the crash-probed runs only
    files_pairs = [f for f in files if os.path.basename(f).startswith("R-")]
    checked = ["crash40", "latest"]
    validate(run, files, checked)
    evals = 0
    distinct = set()
    pairs = set()
    for f in files:
        b = os.path.basename(f).split(".")[0].split("-")
        if f in files_pairs:
            pairs.add((b[-2], b[-1]))
        for l in open(f):
            if '"op":"crashprobe"' in l:
                e = json.loads(l)
                evals += 1
                distinct.add(vlib.sha(json.dumps([os.path.basename(f), e.get("at"), e.get("choice"), e.get("fmv")])))
    run.cov["evaluations"] = evals
    run.cov["distinct_nontrivial"] = len(distinct)
    run.cov["rule"] = ("one evaluation = one crash clone taken during/after RatchetFormatMajorVersion (every FS write op x survival subsets), reopened "
                       "with the real Open: version within [last returned, in flight], contents a prefix with all acked entries; plus lowering refused, "
                       "reads unchanged, clean reopen >= new version. distinct by (pair, crash point, subset, recovered version)")
    run.cov["version_pairs"] = sorted(pairs)
    if not run.violations:
        kv.binding_demo_crash(run, files, checked)
    for f in files[:1]:
        run.sample({"trace": os.path.basename(f), "events": [json.loads(l) for l in list(open(f))[-6:]]})
    run.assumptions += ["crash model = vfs.MemFS crash clones with explicit survival subsets",
                        "every (from,to) pair of supported versions in thorough; the longest jump, the last single step and a seeded sample in quick"]


def run_fault(run):
    """C43: injected I/O faults: enumeration of single faults + seeded fault sequences"""
    design(run)
    quick = run.tier == "quick"
    binp = vlib.build_driver("internal/verif/dbdrv")
    checked = ["crash43", "fault"]
    tdir = vlib.scratch("verif.fault.")
    env = dict(VERIF_OUT=tdir, VERIF_SEED=str(run.seed), VERIF_MAXN=str(80 if quick else 400))
    code, out = vlib.run_driver(binp, "TestFaultEnum", env=env, timeout=1700)
    if "DRIVER-DONE" not in out:
        raise vlib.Inconclusive("dbdrv TestFaultEnum died:\n" + out[-3000:])
    enum_cases = int(out.split("DRIVER-DONE")[1].split("probes=")[1].split()[0])
    env = dict(VERIF_OUT=tdir, VERIF_SEED=str(run.seed), VERIF_SCRIPTS=str(12 if quick else 120), VERIF_STEPS=str(40 if quick else 60))
    code, out2 = vlib.run_driver(binp, "TestFault", env=env, timeout=3000)
    if "DRIVER-DONE" not in out2:
        raise vlib.Inconclusive("dbdrv TestFault died (a panic under an injected fault is itself a C43 failure; see output):\n" + out2[-4000:])
    injected = int(out2.split("DRIVER-DONE")[1].split("probes=")[1].split()[0])
    faults = [l for l in out2.splitlines() if l.startswith("DRIVER-FAULTS")]
    files = sorted(glob.glob(os.path.join(tdir, "*.ndjson")))
    validate(run, files, checked)
    evals = 0
    distinct = set()
    for f in files:
        for l in open(f):
            if '"cls":"fault"' in l or '"op":"reopen"' in l or '"op":"crashprobe"' in l:
                evals += 1
                distinct.add(vlib.sha(os.path.basename(f) + l))
    run.cov["evaluations"] = evals
    run.cov["distinct_nontrivial"] = len(distinct)
    run.cov["rule"] = ("evaluations = reads performed under or after injected faults (each must be an error or the model's result), plus recovered "
                       "states after fatal faults / after the faults stopped (prefix containing all acknowledged entries), all decided by TLC; "
                       "distinct by trace and event content. single-fault enumeration: every n-th read / n-th write-sync-create on table and blob "
                       "files during Flush+Compact of a fixed history, for 3 configurations")
    run.cov["single_fault_cases"] = enum_cases
    run.cov["faults_injected_in_sequences"] = injected
    run.cov["faults_by_mode_class_op"] = faults[0][len("DRIVER-FAULTS "):] if faults else ""
    run.cov["exhaustive"] = False
    if enum_cases < 50 or injected < 20:
        raise vlib.Inconclusive("too few faults fired (%d single, %d in sequences)" % (enum_cases, injected))
    if not run.violations:
        kv.binding_demo(run, [f for f in files if os.path.basename(f).startswith("E-")], ["fault"])
    for f in files[:1]:
        run.sample({"trace": os.path.basename(f), "events": [json.loads(l) for l in list(open(f))[3:9]]})
    run.assumptions += ["faults are injected through vfs/errorfs on table/blob reads, table/blob writes-syncs-creates, and WAL/MANIFEST writes-syncs",
                        "a fatal error (Logger.Fatalf) is modelled as a crash at that point: the goroutine is parked, the store crash-cloned and reopened"]


def REGISTER(reg):
    note = ("Trusted: TLC; KV.tla as the statement of the history semantics; vfs.MemFS's crash model (the repository's own); the overlay "
            "helper CrashCloneWith that makes the survival choice explicit. Bounded: 12-key universe, 30-45 call histories, the listed "
            "configurations, survival subsets exhaustive up to 4-5 unsynced items and sampled above.")
    tech = "TLA+ protocol model (Durability.tla, TLC exhaustive + seeded bugs) + crash-point x survival-subset enumeration on the real DB validated by TLC against KV.tla"
    reg("C10", "Acknowledged synced writes survive any crash", run_crash,
        "Every crash clone (each FS write op x survival subsets) reopens and contains every acknowledged entry: TLC accepts the recovered "
        "state only if it is base + all acked entries + any subset of unacknowledged ones.", note, tech, "DESIGN 6/C10", level="model_checking", engine="crash")
    reg("C11", "Crash recovery yields a consistent prefix", run_crash,
        "Every crash clone's recovered state must equal the model state after a prefix (in commit order) of the history that includes every "
        "acknowledged entry; runs continue from crash clones (repeated crashes). Known finding: direct-to-LSM ingest/excise over non-durable commits.",
        note, tech, "DESIGN 6/C11", level="model_checking", engine="crash")
    reg("C12", "Flush and Close make prior writes durable", run_crash,
        "NoSync / WAL-disabled histories: after Flush (and after Close with the WAL) returns, every crash clone must contain everything "
        "committed before, plus any subset of what was committed since (C12 promises no prefix: that is C11); includes steps where a flush "
        "races an ingest (two jobs creating and syncing objects; ObjSync.tla is the protocol model).", note, tech, "DESIGN 6/C12, 0.3a", level="model_checking", engine="crash")
    reg("C13", "OnlyReadGuaranteedDurable reads are consistent and crash-proof", run_crash,
        "After every call an OnlyReadGuaranteedDurable iterator is fully read and crash clones are taken at that moment: TLC requires the read to "
        "equal a prefix state n and every clone to recover a prefix m >= n.", note, tech, "DESIGN 6/C13", level="model_checking", engine="crash")
    reg("C40", "Format major version ratchets are monotone, durable and lossless", run_ratchet,
        "From every supported version to every higher one with data in tables and WAL: crash clones at every FS write op of the ratchet x survival "
        "subsets must recover a version in [old, new] (>= any returned ratchet) with the contents intact (TLC); lowering is refused; reads unchanged.",
        note, tech, "DESIGN 6/C40", level="model_checking", engine="crash")
    reg("C43", "I/O faults never cause wrong results or inconsistent state", run_fault,
        "Every single read fault and every single write/sync/create fault on table and blob files during Flush+Compact of a fixed history is "
        "enumerated, plus seeded fault sequences in three modes (reads; background writes; fatal WAL/MANIFEST faults treated as crashes): every "
        "read must be an error or the model's result, the state must read back exactly once the faults stop, and recovery must yield a prefix "
        "with all acknowledged entries - each decided by TLC against KV.tla.",
        note, "fault enumeration through vfs/errorfs on the real DB; every observation validated by TLC against the TLA+ model (KVTrace)",
        "DESIGN 6/C43", level="fault_enumeration", engine="crash")
    reg("C22", "MANIFEST updates are atomic and durable", run_crash,
        "At every FS op on MANIFEST/marker/directory (and a sample of the others) x all survival subsets (<=5 items): Open must succeed and the "
        "version recovered read-only must be one of the last two versions the uncrashed MANIFEST describes (only the last at quiescent points).",
        note, tech, "DESIGN 6/C22", level="model_checking", engine="crash")
