"""inputs engine: the "inputs" properties C17, C32, C16, C23.

Each property has a declarative TLA+ module used BOTH as generator and as oracle
(mode A of DESIGN 3.3):

  design   : TLC enumerates every input of a small scope with the module's own state
             machine and checks the module's reference operator against the property's
             relation (Inv); with Emit = TRUE the same run prints every admissible input
             as JSON.  Bug_*.cfg switch one seeded bug of the reference operator on and
             must be caught.
  binding  : the Go driver feeds every TLC-emitted input, plus seeded random inputs drawn
             from the same bounded parameters (larger values), to the real code and logs
             {"op":"in"}/{"op":"out"} pairs; <Module>Trace.tla (ndJsonDeserialize, one
             action per line, high-water mark acceptance) requires the property's relation
             between in and out.  TLC decides admissibility (Pre) and the relation; Go only
             executes and records.  A rejected "out" line is real-code behaviour
             contradicting the property (VIOLATION); anything else is Inconclusive.
"""
import concurrent.futures, hashlib, json, os, re, time
import vlib

WORKERS = int(os.environ.get("VERIF_INPUTS_WORKERS", "4"))     # TLC workers of design runs
SHARDS = int(os.environ.get("VERIF_INPUTS_SHARDS", "4"))       # parallel trace-validation TLC processes

SPEC_MODULES = [("CompactStream", "CompactStream"), ("CompactStream", "CompactStreamTrace"),
                ("Spans", "Spans"), ("Spans", "SpansTrace"), ("L0Sublevels", "L0Sublevels"), ("L0Sublevels", "L0SublevelsTrace")]


def specdir(d):
    return os.path.join(vlib.SPEC, d)


# ---------------------------------------------------------------------------------------
# generic machinery
def cfg_text(spec, consts, invariants=(), extra=""):
    s = "SPECIFICATION %s\nCONSTANTS\n" % spec
    for k, v in consts.items():
        s += "  %s = %s\n" % (k, v)
    for i in invariants:
        s += "INVARIANT %s\n" % i
    s += extra + "CHECK_DEADLOCK FALSE\n"
    return s.encode()


def tla_set(xs):
    return "{" + ", ".join(str(x) for x in xs) + "}"


def run_bugs(run, sdir, module, bugs, expect="Inv"):
    """seeded-bug self-tests, in parallel; each must be caught"""
    def one(b):
        return b, vlib.tlc_must_fail(sdir, module, "Bug_%s.cfg" % b, expect=expect, workers=2, timeout=600)
    with concurrent.futures.ThreadPoolExecutor(max_workers=3) as ex:
        res = list(ex.map(one, bugs))
    for b, r in res:
        run.design["%s/Bug_%s" % (module, b)] = dict(caught=r.violation, generated=r.generated, wall_s=round(r.wall, 1))
    run.cov["seeded_bugs_caught"] = [b for b, _ in res]


def design_emit(run, sdir, module, name, cfgbytes, *, timeout=3000, heap="8g", record=True):
    """exhaustive design-level run; returns the inputs TLC printed (Emit = TRUE).
    record=False: the caller (another thread) calls run.add_design(name, r) itself."""
    r = vlib.tlc(sdir, module, "Run.cfg", workers=WORKERS, timeout=timeout, heap=heap, extra_files={"Run.cfg": cfgbytes})
    if r.timed_out:
        raise vlib.Inconclusive("design run %s timed out" % name)
    if not r.ok:
        raise vlib.Inconclusive("design run %s failed: the spec's reference operator violates %s on the unmodified spec\n%s"
                                % (name, r.violation, r.out[-3000:]))
    if record:
        run.add_design(name, r)
    cases = []
    for l in r.out.splitlines():
        if l.startswith('"{'):
            try:
                cases.append(json.loads(json.loads(l)))
            except Exception:
                raise vlib.Inconclusive("unparsable emitted input: " + l[:300])
    return r, cases


_RE_VAC = re.compile(r'"?VACUOUS"?,\s*(\d+)')
NOTEXEC = [0]   # C16: picks TLC counted as "base candidate holding an intra-L0-compacting file"


def _validate_shard(sdir, module, cfgbytes, pairs, timeout):
    """pairs: list of (in_line, out_line).  Returns (n_accepted_pairs, vacuous, rejections, spec_error)"""
    wd = vlib.scratch("verif.inp.")
    rejections = []
    vac = 0
    done = 0
    rest = pairs
    while rest:
        p = os.path.join(wd, "t%d.ndjson" % len(rejections))
        with open(p, "w") as f:
            for a, b in rest:
                f.write(a + "\n" + b + "\n")
        v = vlib.validate_trace(sdir, module, "TraceRun.cfg", p, timeout=timeout, extra_files={"TraceRun.cfg": cfgbytes}, heap="6g")
        m = None
        for m in _RE_VAC.finditer(v.tlc.out):
            pass
        vac += int(m.group(1)) if m else 0
        mm = None
        for mm in re.finditer(r'"?NOTEXECUTED"?,\s*(\d+)', v.tlc.out):
            pass
        if mm:
            NOTEXEC[0] += int(mm.group(1))
        if v.accepted:
            done += len(rest)
            break
        if v.tlc.violation or ("Error:" in v.tlc.out and "TraceAccepted" not in v.tlc.out):
            return done, vac, rejections, v.tlc.out[-3000:]
        ci = v.hwm // 2
        done += ci
        rejections.append((rest[ci], v.hwm % 2))   # 0: rejected at the "in" line, 1: at the "out" line
        rest = rest[ci + 1:]
        if len(rejections) >= 4:
            break
    return done, vac, rejections, None


def validate_pairs(run, sdir, module, cfgbytes, pairs, label, *, shards=None, timeout=3000):
    """shard the cases over parallel TLC trace validations; classify rejections"""
    shards = shards or SHARDS
    n = len(pairs)
    if n == 0:
        raise vlib.Inconclusive("no cases to validate (%s)" % label)
    k = max(1, min(shards, n // 200 + 1))
    chunks = [pairs[i::k] for i in range(k)]
    t0 = time.time()
    with concurrent.futures.ThreadPoolExecutor(max_workers=k) as ex:
        res = list(ex.map(lambda c: _validate_shard(sdir, module, cfgbytes, c, timeout), chunks))
    acc = vac = 0
    rejected = 0
    for done, v, rejs, err in res:
        if err:
            raise vlib.Inconclusive("trace spec error during validation (%s):\n%s" % (label, err))
        acc += done
        vac += v
        for (a, b), at_out in rejs:
            ein, eout = json.loads(a), json.loads(b)
            if not at_out:
                raise vlib.Inconclusive("%s: trace rejected at an input line (inadmissible generated input or out-of-phase trace): %s"
                                        % (label, a[:600]))
            rejected += 1
            sig = {"kind": "case-rejected", "label": label, "sha": vlib.sha(a)}
            run.violation(sig, "%s: output of the real code rejected by %s: in=%s out=%s" % (label, module, a[:700], b[:700]),
                          replay_obj={"in": ein, "out": eout, "module": module,
                                      "cmd": "python3 /verif/vcheck run %s --tier %s --seed %d" % (run.prop, run.tier, run.seed)})
    run.design.setdefault("trace_validation", {})[label] = dict(cases=n, accepted=acc, vacuous=vac, rejected=rejected,
                                                               shards=k, wall_s=round(time.time() - t0, 1))
    return acc, vac, rejected


def read_pairs(path):
    lines = [l.rstrip("\n") for l in open(path) if l.strip()]
    if len(lines) % 2:
        raise vlib.Inconclusive("driver trace has an odd number of lines: " + path)
    pairs = []
    for i in range(0, len(lines), 2):
        if '"op":"in"' not in lines[i] or '"op":"out"' not in lines[i + 1]:
            raise vlib.Inconclusive("driver trace is not an in/out alternation at line %d" % (i + 1))
        pairs.append((lines[i], lines[i + 1]))
    return pairs


def demo(run, sdir, module, cfgbytes, good, corrupted, what):
    """binding demonstration: accepted real case + (a) the same case with one corrupted logged output field
    (b) an out event dropped -> TLC must reject both, exactly there"""
    wd = vlib.scratch("verif.inpdemo.")
    p = os.path.join(wd, "c.ndjson")
    open(p, "w").write("\n".join([good[0], good[1], corrupted[0], corrupted[1]]) + "\n")
    v = vlib.validate_trace(sdir, module, "TraceRun.cfg", p, extra_files={"TraceRun.cfg": cfgbytes})
    if v.accepted or v.hwm != 3:
        raise vlib.Inconclusive("binding demo: corrupted output (%s) not rejected where expected (hwm=%d)\n%s" % (what, v.hwm, v.tlc.out[-1500:]))
    p = os.path.join(wd, "d.ndjson")
    open(p, "w").write("\n".join([good[0], good[0], good[1]]) + "\n")
    v = vlib.validate_trace(sdir, module, "TraceRun.cfg", p, extra_files={"TraceRun.cfg": cfgbytes})
    if v.accepted or v.hwm != 1:
        raise vlib.Inconclusive("binding demo: dropped out event not rejected (hwm=%d)" % v.hwm)
    run.cov["binding_demo"] = "accepted real case re-validated with %s -> rejected at that line; a dropped out event -> rejected" % what


def in_hash(a):
    return hashlib.sha1(a.encode()).hexdigest()


# ---------------------------------------------------------------------------------------
# C17
CS = specdir("CompactStream")
CS_BUGS = ["IgnoreSnaps", "IgnoreLowestSnap", "ElideAnyStripe", "ZeroAnyStripe", "SDelTwo", "ElidedSDelOverSWD"]


def cs_consts(nk, n, maxpts, maxrd, maxrk, kinds, dsz, snapset, nsfx=2, emit=True):
    return dict(NK=nk, N=n, NSfx=nsfx, MaxPts=maxpts, MaxRD=maxrd, MaxRK=maxrk, Kinds=tla_set(kinds), DszCls=tla_set(dsz),
                SnapSet=tla_set(snapset), BugMode='"none"', Emit="TRUE" if emit else "FALSE")


def cs_trace_cfg(nk, n, nsfx=2):
    c = cs_consts(nk, n, 0, 0, 0, [], [], [], nsfx=nsfx, emit=False)
    return cfg_text("TraceSpec", c, extra="CONSTRAINT HWM\nPOSTCONDITION TraceAccepted\n")


def c17_entries(a):
    c = json.loads(a)["c"]
    return len(c["pts"]) + len(c["rds"]) + len(c["rks"])


def run_c17(run):
    quick = run.tier == "quick"
    vlib.sany(CS, "CompactStream")
    vlib.sany(CS, "CompactStreamTrace")
    # (scope name, constants): every scope is enumerated exhaustively by TLC
    if quick:
        scopes = [("pts N=3 K=2 kinds{SET,DEL,MERGE,SINGLEDEL} snaps<={2,3}", cs_consts(2, 3, 3, 0, 0, [0, 1, 2, 7], [], [2, 3])),
                  # every stack of <= 3 versions of ONE key over every kind a compaction can receive as input, in particular the
                  # kinds only earlier compactions write (SETWITHDEL, value-less / sized DELSIZED), under every snapshot/elision config
                  ("1key N=3 K=1 all kinds incl. SETWITHDEL, DELSIZED{no size,exact,wrong} snaps<={2,3}", cs_consts(1, 3, 3, 0, 0, [0, 1, 2, 7, 18, 23], [0, 1, 2], [2, 3])),
                  ("rangedel N=3 K=2 <=1 point{SET,DEL,MERGE} <=1 rangedel", cs_consts(2, 3, 1, 1, 0, [0, 1, 2], [], [2, 3])),
                  ("rangekeys N=2 K=2 <=2 rangekeys 2 suffixes", cs_consts(2, 2, 0, 0, 2, [], [], [2]))]
        nrandom = 5000
    else:
        scopes = [("pts N=3 K=2 all kinds incl. SETWITHDEL, DELSIZED{exact,wrong} snaps<={2,3}", cs_consts(2, 3, 3, 0, 0, [0, 1, 2, 7, 18, 23], [1, 2], [2, 3])),
                  ("1key N=4 K=1 all kinds incl. SETWITHDEL, DELSIZED{no size,exact,wrong} snaps<={2,3,4}", cs_consts(1, 4, 4, 0, 0, [0, 1, 2, 7, 18, 23], [0, 1, 2], [2, 3, 4])),
                  ("pts+rangedel N=3 K=2 kinds{SET,DEL,MERGE,SINGLEDEL} <=1 rangedel", cs_consts(2, 3, 3, 1, 0, [0, 1, 2, 7], [], [2, 3])),
                  ("pts N=4 K=2 kinds{SET,DEL,MERGE,SINGLEDEL} snaps<={2,3,4}", cs_consts(2, 4, 4, 0, 0, [0, 1, 2, 7], [], [2, 3, 4])),
                  ("spans N=3 K=2 <=1 point{SET,DEL,SINGLEDEL} <=1 rangedel <=1 rangekey", cs_consts(2, 3, 1, 1, 1, [0, 1, 7], [], [2, 3])),
                  ("rangekeys N=3 K=2 <=3 rangekeys 2 suffixes", cs_consts(2, 3, 0, 0, 3, [], [], [2, 3]))]
        nrandom = 100000
    tdir = vlib.scratch("verif.c17.")
    # the scopes' design runs are independent: they are enumerated ahead (two at a time in quick) while the driver executes
    # and TLC validates the cases of the scopes already enumerated
    pool = concurrent.futures.ThreadPoolExecutor(max_workers=2 if quick else 1)
    futs = [pool.submit(design_emit, run, CS, "CompactStream", "CompactStream/" + name,
                        cfg_text("Spec", consts, invariants=["Inv", "Inv2", "EmitInv"]), heap="4g" if quick else "8g", record=False)
            for name, consts in scopes]
    try:
        run_bugs(run, CS, "CompactStream", CS_BUGS)
        binp = vlib.build_driver("internal/verif/inputsdrv")
        total_acc, total_rej, allpairs = c17_scopes(run, quick, binp, tdir, scopes, futs)
    finally:
        pool.shutdown(wait=True, cancel_futures=True)
    c17_random(run, quick, binp, tdir, nrandom, scopes, total_acc, total_rej, allpairs)


def c17_scopes(run, quick, binp, tdir, scopes, futs):
    total_acc = total_rej = 0
    allpairs = []
    for i, (name, consts) in enumerate(scopes):
        r, cases = futs[i].result()
        run.add_design("CompactStream/" + name, r)
        if not cases:
            raise vlib.Inconclusive("TLC emitted no inputs for scope " + name)
        cf = os.path.join(tdir, "cases%d.jsonl" % i)
        with open(cf, "w") as f:
            for c in cases:
                f.write(json.dumps(c, separators=(",", ":")) + "\n")
        tf = os.path.join(tdir, "trace%d.ndjson" % i)
        rc, out = vlib.run_driver(binp, "TestC17$", env=dict(VERIF_OUT=tf, VERIF_CASES=cf, VERIF_SEED=str(run.seed)), timeout=1500)
        if "DRIVER-DONE" not in out:
            raise vlib.Inconclusive("inputsdrv TestC17 died:\n" + out[-3000:])
        pairs = read_pairs(tf)
        if len(pairs) != len(cases):
            raise vlib.Inconclusive("driver executed %d of %d emitted inputs" % (len(pairs), len(cases)))
        acc, vac, rej = validate_pairs(run, CS, "CompactStreamTrace", cs_trace_cfg(consts["NK"], consts["N"]), pairs, "tlc:" + name,
                                       shards=SHARDS if quick else 2 * SHARDS)
        if vac:
            raise vlib.Inconclusive("TLC-emitted inputs judged inadmissible by the trace spec (%d)" % vac)
        total_acc += acc; total_rej += rej
        allpairs += pairs
    return total_acc, total_rej, allpairs


def c17_random(run, quick, binp, tdir, nrandom, scopes, total_acc, total_rej, allpairs):
    total_vac = 0
    # seeded random inputs over larger parameters; TLC decides admissibility
    RNK, RN = 3, 6
    tf = os.path.join(tdir, "random.ndjson")
    rc, out = vlib.run_driver(binp, "TestC17$", env=dict(VERIF_OUT=tf, VERIF_RANDOM=str(nrandom), VERIF_SEED=str(run.seed),
                                                        VERIF_NK=str(RNK), VERIF_N=str(RN), VERIF_MAXRD="2", VERIF_MAXRK="3"), timeout=1500)
    if "DRIVER-DONE" not in out:
        raise vlib.Inconclusive("inputsdrv TestC17 (random) died:\n" + out[-3000:])
    rpairs = read_pairs(tf)
    tcfg = cs_trace_cfg(RNK, RN)
    acc, vac, rej = validate_pairs(run, CS, "CompactStreamTrace", tcfg, rpairs, "random N=6 K=3 <=2 rangedels <=3 rangekeys",
                                   shards=SHARDS if quick else 2 * SHARDS)
    total_acc += acc; total_vac += vac; total_rej += rej
    if total_rej == 0:
        # binding demo on an accepted real case: top entry of a key is a SET, no range deletions, no elision
        good = None
        for a, b in rpairs:
            c, o = json.loads(a)["c"], json.loads(b)["o"]
            if c["rds"] or c["elide"] or not c["pts"] or c["pts"][0]["t"] != 1:
                continue
            tops = [e for e in o["seq"] if e["t"] in (1, 18) and e["k"] == c["pts"][0]["k"] and e["s"] == c["pts"][0]["s"]]
            if tops:
                good = (a, b, tops[0])
                break
        if not good:
            raise vlib.Inconclusive("binding demo: no suitable accepted case")
        a, b, top = good
        o = json.loads(b)
        for e in o["o"]["seq"]:
            if e["k"] == top["k"] and e["s"] == top["s"] and e["t"] == top["t"]:
                e["v"] = [55]
        demo(run, CS, "CompactStreamTrace", tcfg, (a, b), (a, json.dumps(o, separators=(",", ":"))),
             "the value of the newest SET of one key changed in the logged output")
    allpairs += rpairs
    run.traces += total_acc
    run.cov["evaluations"] = total_acc - total_vac
    nontriv = {in_hash(a) for a, b in allpairs if c17_entries(a) >= 2}
    run.cov["distinct_nontrivial"] = max(0, len(nontriv) - total_vac)
    run.cov["vacuous_inadmissible_random_inputs"] = total_vac
    run.cov["exhaustive_scopes"] = [n for n, _ in scopes]
    run.cov["exhaustive"] = False  # the scopes in exhaustive_scopes ARE exhaustive (every input executed and decided); the run adds seeded random inputs on top
    run.cov["rule"] = ("evaluations = cases (input fed to the real compact.Iter + its complete output) on which TLC evaluated "
                       "Compacted(in,out), i.e. all cases minus those whose input TLC judged contract-inadmissible; "
                       "distinct_nontrivial = distinct inputs (content hash) holding >= 2 internal keys/spans, minus the inadmissible count "
                       "(lower bound). Scopes listed in 'exhaustive_scopes' are fully enumerated by TLC and each emitted input was executed; "
                       "random inputs: seeded, K=3 user keys, seqnums 1..6, all point kinds (three kind mixes: plain, SETWITHDEL/SINGLEDEL-heavy, "
                       "DELSIZED-heavy), 1..3 keys sharing the seqnums, <=2 range deletions, <=3 range keys, snapshot subsets of 1..7 "
                       "drawn with density 0/10/35 percent, elision none/partial/all/all+bottommost.")
    for a, b in (allpairs[len(allpairs) // 3], rpairs[0], rpairs[len(rpairs) // 2]):
        run.sample({"in": json.loads(a)["c"], "out": json.loads(b)["o"]})
    run.assumptions += [
        "values are operand-id sequences, MERGE is concatenation (driver merger); DELSIZED sizes are hints without semantics",
        "SINGLEDEL inputs are restricted to the W1 contract (<=1 SET, no MERGE since the last delete); where a SINGLEDEL meets the "
        "stream's oldest SET the lower state is empty; elision on a key asserts an empty lower state for it; "
        "IsBottommostDataLayer only together with elide-everything (compaction.go isBottommostDataLayer)",
        "two lower states per key (absent, one foreign value) distinguish all transformers const/append",
        "TLC's verdict on each case is authoritative; the Go driver only executes and records",
    ]


# ---------------------------------------------------------------------------------------
# C32
SP = specdir("Spans")
SP_BUGS = ["DropAtBoundary", "TruncKeepsBeyondEnd", "MergeDropsLowerLevel", "DefragJoinsUnequal", "DefragIgnoresValue"]


def sp_consts(nb, nseq, maxspans, maxkeys, nlevels, ops, emit=True, dseqs=(1, 2), dkinds=(20, 21), dvals=(1, 2), dmethods=("internal", "user")):
    """dseqs/dkinds/dvals: key pool of the already fragmented inputs (defrag, mdefrag); dmethods: DefragmentMethods generated"""
    return dict(NB=nb, NSeq=nseq, MaxSpans=maxspans, MaxKeys=maxkeys, NLevels=nlevels,
                Ops="{" + ", ".join('"%s"' % o for o in ops) + "}",
                DSeqs=tla_set(dseqs), DKinds=tla_set(dkinds), DVals=tla_set(dvals), DMethods="{" + ", ".join('"%s"' % m for m in dmethods) + "}",
                BugMode='"none"', Emit="TRUE" if emit else "FALSE")


def sp_trace_cfg(nb, nseq):
    return cfg_text("TraceSpec", sp_consts(nb, nseq, 0, 1, 1, [], emit=False), extra="CONSTRAINT HWM\nPOSTCONDITION TraceAccepted\n")


def run_c32(run):
    quick = run.tier == "quick"
    vlib.sany(SP, "Spans")
    vlib.sany(SP, "SpansTrace")
    FRAG = ["frag", "trunc", "merge"]
    # fragmented inputs (defrag with both DefragmentMethods, merge+defrag): abutting / separated fragments whose keys are drawn from a
    # full product of seqnum x kind x suffix x value, so that neighbours differ in any one field (or none)
    D2 = ("defrag/mdefrag: 4 boundaries, <=2 fragments x 1 key over seq{1,2} x {DEL,UNSET,SET} x 2 suffixes x 2 values, both methods, 2 levels",
          sp_consts(4, 2, 2, 1, 2, ["defrag", "mdefrag"], dkinds=(19, 20, 21)))
    D3 = ("defrag: 5 boundaries, <=3 fragments x 1 SET key over seq{1,2} x 2 suffixes x 2 values, both methods",
          sp_consts(5, 2, 3, 1, 1, ["defrag"], dkinds=(21,)))
    if quick:
        scopes = [("4 boundaries, <=2 spans x 1 key (seq 1..2, 2 suffixes), 2 levels, frag/trunc/merge", sp_consts(4, 2, 2, 1, 2, FRAG)),
                  D2, D3,
                  ("4 boundaries, <=3 spans x 1 key (seq 1..3), frag/merge 2 levels", sp_consts(4, 3, 3, 1, 2, ["frag", "merge"]))]
        nrandom = 6000
    else:
        scopes = [("5 boundaries, <=3 spans x 1 key (seq 1..3, 2 suffixes), 2 levels, frag/trunc/merge", sp_consts(5, 3, 3, 1, 2, FRAG)),
                  ("4 boundaries, <=2 spans x <=2 keys (seq 1..4, 2 suffixes), 2 levels, frag/trunc/merge", sp_consts(4, 4, 2, 2, 2, FRAG)),
                  D2, D3,
                  ("defrag/mdefrag: 4 boundaries, <=2 fragments x <=2 keys over seq{1,2} x {UNSET,SET} x 2 suffixes x 2 values, both methods, 2 levels",
                   sp_consts(4, 2, 2, 2, 2, ["defrag", "mdefrag"])),
                  ("mdefrag: 4 boundaries, <=3 fragments x 1 SET key over seq{1,2,3} x 2 suffixes x 2 values, 2 levels",
                   sp_consts(4, 3, 3, 1, 2, ["mdefrag"], dseqs=(1, 2, 3), dkinds=(21,)))]
        nrandom = 150000
    tdir = vlib.scratch("verif.c32.")
    total_acc = total_vac = total_rej = 0
    allpairs = []
    # the scopes' design runs are independent: they are enumerated ahead (two at a time) while the driver executes and TLC
    # validates the cases of the scopes already enumerated
    pool = concurrent.futures.ThreadPoolExecutor(max_workers=2)
    futs = [pool.submit(design_emit, run, SP, "Spans", "Spans/" + name, cfg_text("Spec", consts, invariants=["Inv", "EmitInv"]),
                        heap="4g" if quick else "8g", record=False) for name, consts in scopes]
    try:
        run_bugs(run, SP, "Spans", SP_BUGS)
        binp = vlib.build_driver("internal/verif/inputsdrv")
        for i, (name, consts) in enumerate(scopes):
            r, cases = futs[i].result()
            run.add_design("Spans/" + name, r)
            if not cases:
                raise vlib.Inconclusive("TLC emitted no inputs for scope " + name)
            cf = os.path.join(tdir, "cases%d.jsonl" % i)
            with open(cf, "w") as f:
                for c in cases:
                    f.write(json.dumps(c, separators=(",", ":")) + "\n")
            tf = os.path.join(tdir, "trace%d.ndjson" % i)
            rc, out = vlib.run_driver(binp, "TestC32$", env=dict(VERIF_OUT=tf, VERIF_CASES=cf, VERIF_SEED=str(run.seed), VERIF_NB=str(consts["NB"])), timeout=1500)
            if "DRIVER-DONE" not in out:
                raise vlib.Inconclusive("inputsdrv TestC32 died:\n" + out[-3000:])
            pairs = read_pairs(tf)
            if len(pairs) != len(cases):
                raise vlib.Inconclusive("driver executed %d of %d emitted inputs" % (len(pairs), len(cases)))
            acc, vac, rej = validate_pairs(run, SP, "SpansTrace", sp_trace_cfg(consts["NB"], consts["NSeq"]), pairs, "tlc:" + name,
                                           shards=SHARDS if quick else 2 * SHARDS)
            if vac:
                raise vlib.Inconclusive("TLC-emitted inputs judged inadmissible by the trace spec (%d)" % vac)
            total_acc += acc; total_rej += rej
            allpairs += pairs
    finally:
        pool.shutdown(wait=True, cancel_futures=True)
    RNB, RNS = 7, 8
    tf = os.path.join(tdir, "random.ndjson")
    rc, out = vlib.run_driver(binp, "TestC32$", env=dict(VERIF_OUT=tf, VERIF_RANDOM=str(nrandom), VERIF_SEED=str(run.seed), VERIF_NB=str(RNB),
                                                        VERIF_NSEQ=str(RNS), VERIF_MAXSPANS="5", VERIF_MAXKEYS="2", VERIF_NLEVELS="3"), timeout=1500)
    if "DRIVER-DONE" not in out:
        raise vlib.Inconclusive("inputsdrv TestC32 (random) died:\n" + out[-3000:])
    rpairs = read_pairs(tf)
    tcfg = sp_trace_cfg(RNB, RNS)
    acc, vac, rej = validate_pairs(run, SP, "SpansTrace", tcfg, rpairs, "random 7 boundaries <=5 spans x <=2 keys, 3 levels",
                                   shards=SHARDS if quick else 2 * SHARDS)
    total_acc += acc; total_vac += vac; total_rej += rej
    if total_rej == 0:
        good = None
        for a, b in rpairs:
            c, o = json.loads(a)["c"], json.loads(b)["o"]
            # an accepted defragmentation / merge whose second output fragment starts with a RANGEKEYSET
            if c["op"] in ("defrag", "mdefrag", "merge") and len(o["fwd"]) >= 2 and o["fwd"][1]["ks"][0]["t"] == 21:
                good = (a, b)
                break
        if not good:
            raise vlib.Inconclusive("binding demo: no suitable accepted case")
        o = json.loads(good[1])
        k = o["o"]["fwd"][1]["ks"][0]
        k["v"] = 3 - k["v"] if k["v"] in (1, 2) else 1
        o["o"]["bwd"] = o["o"]["fwd"]
        demo(run, SP, "SpansTrace", tcfg, good, (good[0], json.dumps(o, separators=(",", ":"))),
             "the value of one key of the second logged output fragment changed")
    allpairs += rpairs
    run.traces += total_acc
    run.cov["evaluations"] = total_acc - total_vac
    nontriv = {in_hash(a) for a, b in allpairs if sum(len(l) for l in json.loads(a)["c"]["levels"]) >= 2}
    run.cov["distinct_nontrivial"] = max(0, len(nontriv) - total_vac)
    run.cov["vacuous_inadmissible_random_inputs"] = total_vac
    run.cov["exhaustive_scopes"] = [n for n, _ in scopes]
    run.cov["exhaustive"] = False  # the scopes in exhaustive_scopes ARE exhaustive (every input executed and decided); the run adds seeded random inputs on top
    run.cov["rule"] = ("evaluations = cases (spans + operation fed to the real keyspan code, and the fragments it produced in forward and backward "
                       "iteration plus, at every boundary, SeekGE/SeekLT each followed by Next and by Prev) on which TLC evaluated Fragmented(in,out); "
                       "distinct_nontrivial = distinct inputs with >= 2 spans, minus the inadmissible count. Operations: Fragmenter.Add/Truncate/Finish, "
                       "keyspan.Truncate over the fragmented spans, keyspanimpl.MergingIter over per-level fragmented spans, DefragmentingIter with "
                       "keyspan.DefragmentInternal and with the user-iteration method (rangekeystack.UserIteratorConfig.ShouldDefragment), and "
                       "MergingIter -> DefragmentingIter(DefragmentInternal) as in the compaction input. Scopes in 'exhaustive_scopes' are fully enumerated by TLC; "
                       "random inputs: seeded, 7 boundaries, <=5 spans with <=2 keys of all three range-key kinds, 3 levels; fragmented inputs whose "
                       "neighbouring fragments differ in no or exactly one field (value, suffix, seqnum, kind) of one key.")
    for a, b in (allpairs[len(allpairs) // 3], rpairs[1], rpairs[len(rpairs) // 2]):
        run.sample({"in": json.loads(a)["c"], "out": json.loads(b)["o"]})
    run.assumptions += [
        "span bounds are integer boundaries, so coverage of unit intervals is coverage of every user key",
        "a key is (seqnum, kind RANGEKEYSET/UNSET/DEL, suffix, value) and all of it must travel with the key; spans given to the fragmenter / "
        "the merging iterator carry distinct seqnums; already fragmented inputs (defragmentation) may repeat seqnums across fragments, as the keys of "
        "one ingested table do; levels of a merge+defragment case hold disjoint seqnums",
        "under the user-iteration DefragmentMethod the input is what UserIteratorConfig.Transform leaves (RANGEKEYSETs, one per suffix, by "
        "ascending suffix) and the observable key is (suffix, value): sequence numbers are deliberately not compared there",
        "defragmentation is checked for coverage preservation and well-formedness (not for maximality)",
        "TLC's verdict on each case is authoritative; the Go driver only executes and records",
    ]


C32_TEXT = ("The declarative TLA+ module Spans defines per-key coverage of a set of spans and well-formedness of fragments. TLC enumerates every "
            "small set of overlapping spans (bounds, key seqnums, suffixes, levels, truncation bounds, fragmenter cut points) and every small list of "
            "already fragmented spans whose keys range over seqnum x kind x suffix x value (so neighbours differ in any single field), checks the module's "
            "reference fragmentation / defragmentation (5 seeded bugs caught), and emits the inputs; each is fed to the real keyspan.Fragmenter, "
            "keyspan.Truncate, keyspanimpl.MergingIter, keyspan.DefragmentingIter with both DefragmentMethods of the tree (DefragmentInternal and the "
            "user-iteration method) and MergingIter->DefragmentingIter; TLC validates on every real output that fragments are sorted, non-overlapping, "
            "non-empty, identical in both iteration directions, consistent under SeekGE/SeekLT followed by Next/Prev, and that the keys (with suffix and "
            "value) covering every user key are exactly those of the input spans covering it (restricted to the bounds for truncation, united over "
            "levels for merging).")

# ---------------------------------------------------------------------------------------
# C16
L0 = specdir("L0Sublevels")
L0_BUGS = ["SubMinNotMax", "PickNotTransitive", "PickCompacting", "IntraNotClosedUp"]
_RE_NOTEXEC = re.compile(r'"?NOTEXECUTED"?,\s*(\d+)')


def l0_consts(nkeys, maxfiles, marks, emit=True):
    return dict(NKeys=nkeys, MaxFiles=maxfiles, Marks=tla_set(marks), BugMode='"none"', Emit="TRUE" if emit else "FALSE")


def l0_trace_cfg(nkeys):
    return cfg_text("TraceSpec", l0_consts(nkeys, 0, [], emit=False), extra="CONSTRAINT HWM\nPOSTCONDITION TraceAccepted\n")


def run_c16(run):
    quick = run.tier == "quick"
    vlib.sany(L0, "L0Sublevels")
    vlib.sany(L0, "L0SublevelsTrace")
    run_bugs(run, L0, "L0Sublevels", L0_BUGS)
    binp = vlib.build_driver("internal/manifest")
    if quick:
        scopes = [("3 user keys, <=3 L0 files, all ranges/flush groups, every compacting marking {none,base,intra}", l0_consts(3, 3, [0, 1, 2])),
                  ("4 user keys, <=4 L0 files, no compacting files", l0_consts(4, 4, [0]))]
        nrandom = 4000
    else:
        scopes = [("4 user keys, <=3 L0 files, every compacting marking {none,base,intra}", l0_consts(4, 3, [0, 1, 2])),
                  ("4 user keys, <=4 L0 files, no compacting files", l0_consts(4, 4, [0])),
                  ("5 user keys, <=3 L0 files, compacting markings {none,intra}", l0_consts(5, 3, [0, 2]))]
        nrandom = 100000
    tdir = vlib.scratch("verif.c16.")
    total_acc = total_vac = total_rej = 0
    allpairs = []
    for i, (name, consts) in enumerate(scopes):
        r, cases = design_emit(run, L0, "L0Sublevels", "L0Sublevels/" + name, cfg_text("Spec", consts, invariants=["Inv", "EmitInv"]))
        if not cases:
            raise vlib.Inconclusive("TLC emitted no inputs for scope " + name)
        cf = os.path.join(tdir, "cases%d.jsonl" % i)
        with open(cf, "w") as f:
            for c in cases:
                f.write(json.dumps(c, separators=(",", ":")) + "\n")
        tf = os.path.join(tdir, "trace%d.ndjson" % i)
        rc, out = vlib.run_driver(binp, "TestVInputsL0$", env=dict(VERIF_OUT=tf, VERIF_CASES=cf, VERIF_SEED=str(run.seed)), timeout=1500)
        if "DRIVER-DONE" not in out:
            raise vlib.Inconclusive("manifest TestVInputsL0 died:\n" + out[-3000:])
        pairs = read_pairs(tf)
        if len(pairs) != len(cases):
            raise vlib.Inconclusive("driver executed %d of %d emitted inputs" % (len(pairs), len(cases)))
        acc, vac, rej = validate_pairs(run, L0, "L0SublevelsTrace", l0_trace_cfg(consts["NKeys"]), pairs, "tlc:" + name)
        if vac:
            raise vlib.Inconclusive("TLC-emitted inputs judged inadmissible by the trace spec (%d)" % vac)
        total_acc += acc; total_rej += rej
        allpairs += pairs
    RNK = 6
    tf = os.path.join(tdir, "random.ndjson")
    rc, out = vlib.run_driver(binp, "TestVInputsL0$", env=dict(VERIF_OUT=tf, VERIF_RANDOM=str(nrandom), VERIF_SEED=str(run.seed),
                                                              VERIF_NKEYS=str(RNK), VERIF_MAXFILES="7"), timeout=1500)
    if "DRIVER-DONE" not in out:
        raise vlib.Inconclusive("manifest TestVInputsL0 (random) died:\n" + out[-3000:])
    rpairs = read_pairs(tf)
    tcfg = l0_trace_cfg(RNK)
    acc, vac, rej = validate_pairs(run, L0, "L0SublevelsTrace", tcfg, rpairs, "random 6 user keys <=7 L0 files, random compacting marks")
    total_acc += acc; total_vac += vac; total_rej += rej
    if total_rej == 0:
        good = None
        for a, b in rpairs:
            c, o = json.loads(a)["c"], json.loads(b)["o"]
            if len(c["files"]) >= 3 and all(f["c"] == 0 for f in c["files"]) and max(x["sl"] for x in o["sub"]) >= 1:
                good = (a, b)
                break
        if not good:
            raise vlib.Inconclusive("binding demo: no suitable accepted case")
        o = json.loads(good[1])
        top = max(o["o"]["sub"], key=lambda x: x["sl"])
        for x in o["o"]["sub"]:
            if x["id"] == top["id"]:
                x["sl"] = 0
        demo(run, L0, "L0SublevelsTrace", tcfg, good, (good[0], json.dumps(o, separators=(",", ":"))),
             "the logged sublevel of the topmost file set to 0")
    allpairs += rpairs
    run.traces += total_acc
    run.cov["base_picks_holding_intra_l0_compacting_file"] = NOTEXEC[0]
    if NOTEXEC[0] > 0:
        # the property's clause "a pick never includes a file that is already compacting" is violated at the l0_sublevels API
        # (known finding; pebble's pickL0 drops such candidates).  Everything else about those picks was still checked by TLC.
        run.violation({"kind": "base-pick-includes-intra-l0-compacting-file"},
                      "PickBaseCompaction returned %d candidate(s) containing an intra-L0-compacting file (counted by TLC)" % NOTEXEC[0])
    run.cov["evaluations"] = total_acc - total_vac
    nontriv = {in_hash(a) for a, b in allpairs if len(json.loads(a)["c"]["files"]) >= 2}
    run.cov["distinct_nontrivial"] = max(0, len(nontriv) - total_vac)
    run.cov["vacuous_inadmissible_random_inputs"] = total_vac
    run.cov["exhaustive_scopes"] = [n for n, _ in scopes]
    run.cov["exhaustive"] = False  # the scopes in exhaustive_scopes ARE exhaustive (every input executed and decided); the run adds seeded random inputs on top
    run.cov["rule"] = ("evaluations = cases (an L0 file set with compacting marks given to the real newL0Sublevels, to addL0Files at every split point "
                       "one file at a time and in one chunk, and to PickBaseCompaction / PickIntraL0Compaction for minCompactionDepth 1..3 and every "
                       "earliestUnflushedSeqNum) on which TLC evaluated L0Ok(in,out); distinct_nontrivial = distinct inputs with >= 2 files minus the "
                       "inadmissible count. Scopes in 'exhaustive_scopes' are fully enumerated by TLC; random: seeded, 6 user keys, <=7 files.")
    for a, b in (allpairs[len(allpairs) // 3], rpairs[1]):
        o = json.loads(b)["o"]
        run.sample({"in": json.loads(a)["c"], "out": {"sub": o["sub"], "incremental_variants": len(o["inc"]), "picks": [p for p in o["picks"] if not p["none"]][:4]}})
    run.assumptions += [
        "overlapping L0 files have disjoint seqnum ranges; files of one flush (same range) are key-disjoint",
        "files already marked compacting form closed picks themselves (admissible markings); other markings are vacuous",
        "a PickBaseCompaction candidate containing an intra-L0-compacting file is treated as not executed (pebble's pickL0 drops it in setupInputs); "
        "such candidates DO occur on the unchanged tree (baseCompactionUsingSeed stacks seed-interval files without an IsCompacting check) and are reported "
        "to the lead as a finding; they must still contain no file compacting to Lbase",
        "Lbase is empty in the pick calls (no conflicts with Lbase compactions are modelled)",
        "TLC's verdict on each case is authoritative; the Go driver only executes and records",
    ]


C16_TEXT = ("The declarative TLA+ module L0Sublevels defines Sublevel(f) = 1 + max sublevel of the older files overlapping f, soundness of a sublevel "
            "assignment, and closedness of a pick. TLC enumerates every small set of L0 files (ranges, flush groups, compacting markings), checks the "
            "module's reference operators, and emits the inputs; each is given to the real newL0Sublevels, to addL0Files at every split point, and to "
            "PickBaseCompaction / PickIntraL0Compaction for several depths and flush horizons; TLC validates on the real results that overlapping files "
            "are in distinct sublevels ordered by seqnum, a sublevel never holds overlapping files, the assignment equals the definition, every "
            "incremental construction equals the batch one, and every executed pick contains no compacting file and leaves no older overlapping "
            "file above / newer one below its output.")

C17_TEXT = ("The declarative TLA+ module CompactStream defines, for a sorted internal-key stream restricted to a view, the transformer it "
            "applies to any lower-level state (SET const, DEL/DELSIZED/SINGLEDEL/covering RANGEDEL const-absent, MERGE append; range keys per "
            "suffix). TLC enumerates every input of the stated small scopes (all point kinds incl. SETWITHDEL/DELSIZED, range deletions, range "
            "keys, snapshot subsets, elision none/partial/all, bottommost flag), checks the module's reference compaction against "
            "Compacted(in,out), and emits the inputs; each emitted input and seeded random inputs of a larger scope are fed to the real "
            "compact.Iter (+ RangeDel/RangeKey span compactors); TLC validates Compacted(in,out) on every real output: equal transformers of "
            "every contract-admissible lower state at every snapshot and at latest, strict output order, seqnum zeroing only in the bottom "
            "stripe with the bottommost flag, tombstones disappearing only where elision is allowed.")
INPUTS_NOTE = ("Trusted: TLC, the TLA+ definition as the statement of intended behaviour, the Go driver's encoding of keys/values and its "
               "recording of outputs. Bounded: the enumerated small scopes and the seeded random sample stated in the evidence rule.")
INPUTS_TECH = "declarative TLA+ definition used as generator and oracle: TLC-enumerated inputs executed on the real code, outputs validated by a TLC trace spec"


def REGISTER(reg):
    reg("C17", "Compaction output preserves every snapshot's view", run_c17, C17_TEXT, INPUTS_NOTE, INPUTS_TECH, "DESIGN 6/C17", engine="inputs")
    reg("C32", "Span fragmentation preserves coverage exactly", run_c32, C32_TEXT, INPUTS_NOTE, INPUTS_TECH, "DESIGN 6/C32", engine="inputs")
    reg("C16", "L0 sublevels are sound and compaction picks are closed", run_c16, C16_TEXT, INPUTS_NOTE, INPUTS_TECH, "DESIGN 6/C16", engine="inputs")
