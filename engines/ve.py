"""ve engine: C23 "Version edits round-trip and replay deterministically" (mode A, as engines/inputs.py).

  design   : spec/VersionEdits/VersionEdits.tla.  TLC enumerates every base version and every valid edit
             sequence of a small scope with the module's own generator and checks
             ApplySeq(v, es) = Apply(v, Accumulate(es)) (Inv), an independent declarative characterisation of
             the result (Declarative), the bulk edit's normal form and that the generator only makes valid
             sequences.  Bug_*.cfg switch one seeded bug of Accumulate / Apply on and must be caught.
  binding  : with Emit = TRUE the same runs print every input as JSON; the in-package Go driver
             (internal/manifest, zz_verif_ve_test.go) materialises each as real VersionEdits, runs every edit
             through Encode/Decode, applies them one at a time and through one BulkVersionEdit to real
             Versions, and logs in/out pairs; VersionEditsTrace.tla decides Pre(in) and VeOk(in, out).
             Seeded random inputs over larger parameters go the same way (TLC decides admissibility).
"""
import concurrent.futures, hashlib, json, os, re, time
import vlib

WORKERS = int(os.environ.get("VERIF_VE_WORKERS", "4"))
SHARDS = int(os.environ.get("VERIF_VE_SHARDS", "6"))
DRIVER_NAME = os.environ.get("VERIF_VE_DRIVER", "internal_manifest_ve")

SPEC_MODULES = [("VersionEdits", "VersionEdits"), ("VersionEdits", "VersionEditsTrace")]
VE = os.path.join(vlib.SPEC, "VersionEdits")
BUGS = ["AccKeepsAddedThenDeleted", "AccSetDifference", "AccMoveByNumber", "ApplyRemovesOnePerLevel",
        "AccMarkSurvivesDelete", "AccBlobReplaceLost"]


def cfg_text(spec, consts, invariants=(), extra=""):
    s = "SPECIFICATION %s\nCONSTANTS\n" % spec
    for k, v in consts.items():
        s += ("  %s <- %s\n" if k == "GenCat" else "  %s = %s\n") % (k, v)
    for i in invariants:
        s += "INVARIANT %s\n" % i
    s += extra + "CHECK_DEADLOCK FALSE\n"
    return s.encode()


def tla_set(xs):
    return "{" + ", ".join(str(x) for x in xs) + "}"


def consts(cat, levels, blobids, maxedits, maxops, marks=False, emit=True):
    return dict(GenCat=cat, GenLevels=tla_set(levels), GenBlobIds=tla_set(blobids), MaxEdits=maxedits, MaxTabOps=maxops,
                GenMarks="TRUE" if marks else "FALSE", BugMode='"none"', Emit="TRUE" if emit else "FALSE")


def trace_cfg():
    return cfg_text("TraceSpec", consts("CatPhys2", [0], [], 0, 0, emit=False), extra="CONSTRAINT HWM\nPOSTCONDITION TraceAccepted\n")


def run_bugs(run):
    def one(b):
        return b, vlib.tlc_must_fail(VE, "VersionEdits", "Bug_%s.cfg" % b, expect=["Inv", "Declarative"], workers=2, timeout=900)
    with concurrent.futures.ThreadPoolExecutor(max_workers=3) as ex:
        res = list(ex.map(one, BUGS))
    for b, r in res:
        run.design["VersionEdits/Bug_%s" % b] = dict(caught=r.violation, generated=r.generated, wall_s=round(r.wall, 1))
    run.cov["seeded_bugs_caught"] = [b for b, _ in res]


def design_emit(run, name, cfgbytes, *, timeout=3000, heap="8g"):
    r = vlib.tlc(VE, "VersionEdits", "Run.cfg", workers=WORKERS, timeout=timeout, heap=heap, extra_files={"Run.cfg": cfgbytes})
    if r.timed_out:
        raise vlib.Inconclusive("design run %s timed out" % name)
    if not r.ok:
        raise vlib.Inconclusive("design run %s failed: the unmodified spec violates %s\n%s" % (name, r.violation, r.out[-3000:]))
    run.add_design(name, r)
    cases = []
    for l in r.out.splitlines():
        if l.startswith('"{'):
            try:
                cases.append(json.loads(json.loads(l)))
            except Exception:
                raise vlib.Inconclusive("unparsable emitted input: " + l[:300])
    return r, cases


_RE_VAC = re.compile(r'"?VACUOUS"?,\s*(\d+)')


def _validate_shard(cfgbytes, pairs, timeout):
    """pairs: list of (in_line, out_line).  Returns (n_accepted_pairs, vacuous, rejections, spec_error)"""
    wd = vlib.scratch("verif.ve.")
    rejections = []
    vac = 0
    done = 0
    rest = pairs
    while rest:
        p = os.path.join(wd, "t%d.ndjson" % len(rejections))
        with open(p, "w") as f:
            for a, b in rest:
                f.write(a + "\n" + b + "\n")
        v = vlib.validate_trace(VE, "VersionEditsTrace", "TraceRun.cfg", p, timeout=timeout, extra_files={"TraceRun.cfg": cfgbytes}, heap="4g")
        m = None
        for m in _RE_VAC.finditer(v.tlc.out):
            pass
        vac += int(m.group(1)) if m else 0
        if v.accepted:
            done += len(rest)
            break
        if v.tlc.violation or ("Error:" in v.tlc.out and "TraceAccepted" not in v.tlc.out):
            return done, vac, rejections, v.tlc.out[-3000:]
        ci = v.hwm // 2
        done += ci
        rejections.append((rest[ci], v.hwm % 2))   # 0: rejected at the "in" line, 1: at the "out" line
        rest = rest[ci + 1:]
        if len(rejections) >= 4:
            break
    return done, vac, rejections, None


def classify(o):
    """which part of the logged real behaviour is affected (diagnostic only; the verdict was TLC's)"""
    if o.get("err"):
        return "encode/decode failed: " + o.get("msg", "")[:200]
    for k in ("seq", "seqdec", "bulk", "bulk0"):
        if o[k].get("err"):
            return "%s path failed: %s" % (k, o[k].get("msg", "")[:200])
    key = lambda r: json.dumps([[sorted(x) for x in r["lv"]], sorted(r["bl"]), sorted(r["mk"])])
    if len({key(o[k]) for k in ("seq", "seqdec", "bulk", "bulk0")}) > 1:
        return "one-at-a-time and bulk application disagree"
    return "decoded edit or resulting version differs from the spec"


def validate_pairs(run, cfgbytes, pairs, label, *, shards=None, timeout=3000):
    shards = shards or SHARDS
    n = len(pairs)
    if n == 0:
        raise vlib.Inconclusive("no cases to validate (%s)" % label)
    k = max(1, min(shards, n // 300 + 1))
    chunks = [pairs[i::k] for i in range(k)]
    t0 = time.time()
    with concurrent.futures.ThreadPoolExecutor(max_workers=k) as ex:
        res = list(ex.map(lambda c: _validate_shard(cfgbytes, c, timeout), chunks))
    acc = vac = rejected = 0
    for done, v, rejs, err in res:
        if err:
            raise vlib.Inconclusive("trace spec error during validation (%s):\n%s" % (label, err))
        acc += done
        vac += v
        for (a, b), at_out in rejs:
            ein, eout = json.loads(a), json.loads(b)
            if not at_out:
                raise vlib.Inconclusive("%s: trace rejected at an input line (a TLC-emitted input judged inadmissible, or the spec's own law "
                                        "ApplySeq = Apply(Accumulate) failed on an admissible input): %s" % (label, a[:800]))
            rejected += 1
            sig = {"kind": "case-rejected", "label": label, "sha": vlib.sha(a)}
            run.violation(sig, "%s: behaviour of the real VersionEdit code rejected by VersionEditsTrace (%s): in=%s out=%s"
                          % (label, classify(eout["o"]), a[:600], b[:600]),
                          replay_obj={"in": ein, "out": eout, "module": "VersionEditsTrace",
                                      "cmd": "python3 /verif/vcheck run %s --tier %s --seed %d" % (run.prop, run.tier, run.seed)})
    run.design.setdefault("trace_validation", {})[label] = dict(cases=n, accepted=acc, vacuous=vac, rejected=rejected,
                                                               shards=k, wall_s=round(time.time() - t0, 1))
    return acc, vac, rejected


def read_pairs(path):
    lines = [l.rstrip("\n") for l in open(path) if l.strip()]
    if len(lines) % 2:
        raise vlib.Inconclusive("driver trace has an odd number of lines: " + path)
    pairs = []
    for i in range(0, len(lines), 2):
        if '"op":"in"' not in lines[i] or '"op":"out"' not in lines[i + 1]:
            raise vlib.Inconclusive("driver trace is not an in/out alternation at line %d" % (i + 1))
        pairs.append((lines[i], lines[i + 1]))
    return pairs


def demo(run, cfgbytes, good, corruptions):
    """binding demonstration: an accepted real case, then the same case with one corrupted logged field -> TLC must
    reject exactly at that out line; a dropped out event -> rejected"""
    wd = vlib.scratch("verif.vedemo.")

    def one(i):
        if i < len(corruptions):
            what, bad = corruptions[i]
            p = os.path.join(wd, "c%d.ndjson" % i)
            open(p, "w").write("\n".join([good[0], good[1], good[0], bad]) + "\n")
            v = vlib.validate_trace(VE, "VersionEditsTrace", "TraceRun.cfg", p, extra_files={"TraceRun.cfg": cfgbytes})
            if v.accepted or v.hwm != 3:
                raise vlib.Inconclusive("binding demo: corrupted output (%s) not rejected where expected (hwm=%d)\n%s" % (what, v.hwm, v.tlc.out[-1500:]))
        else:
            p = os.path.join(wd, "d.ndjson")
            open(p, "w").write("\n".join([good[0], good[0], good[1]]) + "\n")
            v = vlib.validate_trace(VE, "VersionEditsTrace", "TraceRun.cfg", p, extra_files={"TraceRun.cfg": cfgbytes})
            if v.accepted or v.hwm != 1:
                raise vlib.Inconclusive("binding demo: dropped out event not rejected (hwm=%d)" % v.hwm)
    with concurrent.futures.ThreadPoolExecutor(max_workers=4) as ex:
        list(ex.map(one, range(len(corruptions) + 1)))
    run.cov["binding_demo"] = ("accepted real case re-validated with " + "; ".join(w for w, _ in corruptions) +
                               " -> each rejected at that line; a dropped out event -> rejected")


def in_hash(a):
    return hashlib.sha1(a.encode()).hexdigest()


def nontrivial(a):
    c = json.loads(a)["c"]
    return len(c["es"]) >= 2 and sum(len(e["del"]) + len(e["add"]) for e in c["es"]) >= 2


def probe_finding(run, binp, tdir):
    """the round-trip gap excluded from the valid edits (see JsonShapeOk in the spec): record what the tree does"""
    t = dict(n=1, b=0, lo=10, hi=19, sl=1, sh=5, sz=1013, ct=0, rk=1, rkk=0, refs=[], rd=0, sp=0)
    t2 = dict(t, n=2, lo=30, hi=39, sl=6, sh=9, rk=0)
    e = dict(add=[[6, 1], [6, 2]], cb=[], rb=[], nb=[], db=[], mk=[], ex=[], cmp=0, log=0, prev=0, nfn=9, lsn=9)
    e["del"] = []
    c = dict(tabs=[t, t2], v0=dict(lv=[[] for _ in range(7)], bl=[], mk=[], bk=[]), es=[e])
    cf, tf = os.path.join(tdir, "probe.jsonl"), os.path.join(tdir, "probe.ndjson")
    open(cf, "w").write(json.dumps(c) + "\n")
    rc, out = vlib.run_driver(binp, "TestVVe$", env=dict(VERIF_OUT=tf, VERIF_CASES=cf), timeout=300)
    if "DRIVER-DONE" not in out:
        return
    o = json.loads(read_pairs(tf)[0][1])["o"]
    ok = (not o["err"]) and len(o["dec"]) == 1 and [x["n"] for x in o["dec"][0]["add"]] == [1, 2]
    run.cov["finding_probe_rangekey_table_without_custom_fields"] = (
        "round-trips" if ok else "does NOT round-trip on this tree (Encode omits the custom-tag terminator after tagNewFile5 when the table has "
        "no custom field; Decode misparses: %s); this is the defect fixed in /repo; the generated inputs include the shape, so the run also reports it as a violation" % (o.get("msg") or "following table lost/garbled"))


def run_c23(run):
    quick = run.tier == "quick"
    vlib.sany(VE, "VersionEdits")
    vlib.sany(VE, "VersionEditsTrace")
    binp = vlib.build_driver("internal/manifest", name=DRIVER_NAME)
    bugs_f = concurrent.futures.ThreadPoolExecutor(max_workers=1).submit(run_bugs, run)
    INV = ["Inv", "GenValid", "NormalForm", "Declarative", "EmitInv"]
    # (name, constants): every scope is enumerated exhaustively by TLC and every emitted input is executed
    if quick:
        scopes = [("2 physical tables (points / points+range keys), levels {0,6}, every base placement, <=3 edits of <=2 table ops (add/delete/move)",
                   consts("CatPhys2", [0, 6], [], 3, 2)),
                  ("2 physical tables, levels {0,6}, <=2 edits of <=1 table op, marks for compaction", consts("CatPhys2", [0, 6], [], 2, 1, marks=True)),
                  ("excise: physical table replaced by 2 virtual tables sharing its backing + a virtual table on a foreign backing, level {6}, <=2 edits of <=3 table ops, backing removal",
                   consts("CatExcise", [6], [], 2, 3)),
                  ("blob files: 2 tables + 1 virtual referencing blob files {1,2}, level {6}, <=2 edits of <=1 table op, blob add/delete/replace",
                   consts("CatBlob", [6], [1, 2], 2, 1))]
        nrandom = 3000
    else:
        scopes = [("3 physical tables (points / points+range keys / range keys only), levels {0,5,6}, every base placement, <=2 edits of <=2 table ops",
                   consts("CatPhys3", [0, 5, 6], [], 2, 2)),
                  ("2 physical tables, levels {0,6}, every base placement, <=4 edits of <=2 table ops", consts("CatPhys2", [0, 6], [], 4, 2)),
                  ("excise: physical table replaced by 2 virtual tables sharing its backing + a virtual table on a foreign backing, level {6}, <=3 edits of <=3 table ops, backing removal",
                   consts("CatExcise", [6], [], 3, 3)),
                  ("excise: same catalog, levels {0,6}, <=2 edits of <=3 table ops", consts("CatExcise", [0, 6], [], 2, 3)),
                  ("blob files: 2 tables + 1 virtual referencing blob files {1,2}, level {6}, <=2 edits of <=2 table ops, blob add/delete/replace, marks",
                   consts("CatBlob", [6], [1, 2], 2, 2, marks=True))]
        nrandom = 120000
    tdir = vlib.scratch("verif.c23.")
    tcfg = trace_cfg()
    total_acc = total_vac = total_rej = 0
    allpairs = []
    # phase 1: all design runs in parallel; phase 2: drivers; phase 3: all validations in parallel
    with concurrent.futures.ThreadPoolExecutor(max_workers=len(scopes)) as ex:
        emitted = list(ex.map(lambda sc: design_emit(run, "VersionEdits/" + sc[0], cfg_text("Spec", sc[1], invariants=INV)), scopes))
    jobs = []
    for i, ((name, cs), (r, cases)) in enumerate(zip(scopes, emitted)):
        if not cases:
            raise vlib.Inconclusive("TLC emitted no inputs for scope " + name)
        cf = os.path.join(tdir, "cases%d.jsonl" % i)
        with open(cf, "w") as f:
            for c in cases:
                f.write(json.dumps(c, separators=(",", ":")) + "\n")
        tf = os.path.join(tdir, "trace%d.ndjson" % i)
        rc, out = vlib.run_driver(binp, "TestVVe$", env=dict(VERIF_OUT=tf, VERIF_CASES=cf, VERIF_SEED=str(run.seed)), timeout=1500)
        if "DRIVER-DONE" not in out:
            raise vlib.Inconclusive("manifest TestVVe died:\n" + out[-3000:])
        pairs = read_pairs(tf)
        if len(pairs) != len(cases):
            raise vlib.Inconclusive("driver executed %d of %d emitted inputs" % (len(pairs), len(cases)))
        jobs.append(("tlc:" + name, pairs, True))
        allpairs += pairs
    # seeded random inputs over larger parameters; TLC decides admissibility
    tf = os.path.join(tdir, "random.ndjson")
    rc, out = vlib.run_driver(binp, "TestVVe$", env=dict(VERIF_OUT=tf, VERIF_RANDOM=str(nrandom), VERIF_SEED=str(run.seed),
                                                        VERIF_NTABS="6", VERIF_MAXEDITS="4"), timeout=1500)
    if "DRIVER-DONE" not in out:
        raise vlib.Inconclusive("manifest TestVVe (random) died:\n" + out[-3000:])
    rpairs = read_pairs(tf)
    rlabel = "random <=6 physical + virtual tables, levels {0,3,5,6}, <=4 edits of <=3 table ops, excises, <=3 blob files, marks"
    jobs.append((rlabel, rpairs, False))
    per = max(3, (SHARDS if quick else 2 * SHARDS) * 2 // len(jobs))
    with concurrent.futures.ThreadPoolExecutor(max_workers=len(jobs)) as ex:
        results = list(ex.map(lambda j: validate_pairs(run, tcfg, j[1], j[0], shards=per if j[2] else 2 * per), jobs))
    for (label, pairs, must), (acc, vac, rej) in zip(jobs, results):
        if must and vac:
            raise vlib.Inconclusive("TLC-emitted inputs judged inadmissible by the trace spec (%d, %s)" % (vac, label))
        total_acc += acc; total_vac += vac; total_rej += rej
        if not must and vac > len(pairs) // 2:
            raise vlib.Inconclusive("more than half of the random inputs are inadmissible (%d of %d): generator out of step with the spec" % (vac, len(pairs)))
    if total_rej == 0:
        good = None
        for a, b in allpairs + rpairs:
            c, o = json.loads(a)["c"], json.loads(b)["o"]
            if json.loads(a)["must"] and len(c["es"]) >= 2 and any(e["add"] for e in c["es"]) and sum(len(x) for x in o["bulk"]["lv"]) >= 2:
                good = (a, b)
                break
        if not good:
            raise vlib.Inconclusive("binding demo: no suitable accepted case")
        cors = []
        o = json.loads(good[1])
        lvl = max(range(7), key=lambda i: len(o["o"]["bulk"]["lv"][i]))
        o["o"]["bulk"]["lv"][lvl] = o["o"]["bulk"]["lv"][lvl][1:]
        cors.append(("one table dropped from a level of the bulk-applied version", json.dumps(o, separators=(",", ":"))))
        o = json.loads(good[1])
        k = [i for i, d in enumerate(o["o"]["dec"]) if d["add"]][0]
        o["o"]["dec"][k]["add"][0]["sh"] += 1
        cors.append(("the largest seqnum of a decoded new table changed", json.dumps(o, separators=(",", ":"))))
        o = json.loads(good[1])
        o["o"]["dec"][0]["nfn"] += 1
        cors.append(("the decoded next-file-number changed", json.dumps(o, separators=(",", ":"))))
        demo(run, tcfg, good, cors)
    probe_finding(run, binp, tdir)
    bugs_f.result()
    allpairs += rpairs
    run.traces += total_acc
    run.cov["evaluations"] = total_acc - total_vac
    nontriv = {in_hash(a) for a, b in allpairs if nontrivial(a)}
    run.cov["distinct_nontrivial"] = max(0, len(nontriv) - total_vac)
    run.cov["vacuous_inadmissible_random_inputs"] = total_vac
    run.cov["exhaustive_scopes"] = [n for n, _ in scopes]
    run.cov["exhaustive"] = False  # the scopes in exhaustive_scopes ARE exhaustive (every input executed and decided); the run adds seeded random inputs on top
    run.cov["rule"] = ("evaluations = cases (catalog of table metadata + base version + edit sequence; materialised as real VersionEdits; every edit "
                       "encoded and decoded; applied to real Versions (a) in-memory one edit at a time, (b) decoded one at a time, (c) decoded through "
                       "one BulkVersionEdit on the base version, (d) decoded snapshot+edits through one BulkVersionEdit on the empty version) on which "
                       "TLC evaluated VeOk(in,out); distinct_nontrivial = distinct inputs with >= 2 edits and >= 2 table additions/deletions, minus the "
                       "inadmissible count (lower bound). Scopes in 'exhaustive_scopes' are fully enumerated by TLC and every emitted input was executed; "
                       "random: seeded, see the label in design_runs.trace_validation.")
    for a, b in (allpairs[len(allpairs) // 3], rpairs[1], rpairs[len(rpairs) // 2]):
        c, o = json.loads(a)["c"], json.loads(b)["o"]
        run.sample({"in": {"v0": c["v0"], "es": [{k: v for k, v in e.items() if v} for e in c["es"]]}, "out": {"bulk": o["bulk"]["lv"], "seq": o["seq"]["lv"]}})
    run.assumptions += [
        "valid sequences (SeqPre): deleted tables exist at that level, added ones do not, a table is in one level, L1+ key-disjoint, L0 distinct "
        "largest seqnums, virtual tables' backings live, a physical table never next to its own virtualization, referenced blob files present, "
        "a base table deleted from a level is not re-added to it within one bulk (BulkVersionEdit returns an error), backings created/removed once",
        "tables with range keys and no custom field (CreationTime 0, physical, no blob references) are valid inputs (they did not round-trip "
        "before fix 'VersionEdit.Encode must terminate the custom-field list'; coverage.finding_probe_... re-probes that shape every run)",
        "decoded virtual tables whose backing was created by an earlier edit get it attached by the driver when edits are applied through "
        "separate BulkVersionEdits (a fresh BulkVersionEdit only knows backings it accumulated)",
        "BlobReference.BackingValueSize / EstimatedPhysicalSize, AllowedSeeks, stats are not compared; table bounds are compared by user key "
        "and boundary seqnums",
        "NOT covered: 'decoding arbitrary bytes never panics / re-encodes to an equal edit' (no fuzzing of byte strings here)",
        "TLC's verdict on each case is authoritative; the Go driver only executes and records",
    ]


C23_TEXT = ("The TLA+ module VersionEdits defines a version (level -> set of tables, blob file set, marked-for-compaction set, live virtual "
            "backings), Apply of one edit, ApplySeq, and Accumulate mirroring BulkVersionEdit.Accumulate, with the validity preconditions "
            "(a deleted table exists at that level, an added one does not, moves = delete+add, excise = physical table replaced by virtual "
            "tables sharing a created backing). TLC enumerates every base version and valid edit sequence of the stated small scopes and checks "
            "ApplySeq(v, es) = Apply(v, Accumulate(es)) plus an independent declarative characterisation of the result; the same inputs and "
            "seeded random larger ones are materialised as real VersionEdits with realistic TableMetadata, each edit is encoded and decoded, "
            "and applied one at a time and through one BulkVersionEdit (in-memory and decoded, from the base version and from the empty "
            "version); TLC validates that every decoded edit holds exactly the generated content (levels, table numbers, bounds, seqnums, "
            "sizes, creation time, range-key kinds, blob references, virtual backing, synthetic prefix/suffix, backings, blob files, excise "
            "records, marks, comparer / log numbers / next file number / last seqnum) and that all resulting Versions have exactly the spec's "
            "per-level table lists (in level order, with the right backing), blob files, marks and backings.")
C23_NOTE = ("Trusted: TLC, the TLA+ definitions as the statement of intended behaviour, the Go driver's materialisation of tables and its "
            "recording. Bounded: the enumerated small scopes and the seeded random sample stated in the evidence rule. NOT covered: the clause "
            "'decoding arbitrary bytes returns an error or an edit that re-encodes equal, and never panics' (no byte-string fuzzing; stated, not "
            "claimed). One round-trip gap on the unchanged tree (range-key table without any custom field) is excluded by assumption and probed "
            "in every run.")
C23_TECH = "declarative TLA+ definition used as generator and oracle: TLC-enumerated edit sequences executed on the real code, results validated by a TLC trace spec"


def REGISTER(reg):
    reg("C23", "Version edits round-trip and replay deterministically", run_c23, C23_TEXT, C23_NOTE, C23_TECH, "DESIGN 6/C23", engine="ve")
