"""Registry of checks -> MANIFEST.json, selftest and setup."""
import importlib, json, os, traceback
import vlib
from engines import kv

CHECKS = {}
SPEC_MODULES = [("KV", "KVGen"), ("KV", "KVTrace")]
NOT_APPLICABLE = [
    ("C26", "Filter no-false-negatives is a numeric/bit-packing property of one hash-based pure function; there is no state or ordering for a TLA+ specification to describe (DESIGN 7)."),
    ("C28", "Compression round trip is codec fidelity of pure functions over byte strings; outside model-based verification (DESIGN 7)."),
    ("C46", "Options serialise/parse round trip is encode/decode fidelity of a flat record; no state machine to specify (DESIGN 7)."),
]


def reg(pid, title, fn, text, note, technique, design_ref, level="model_checking", args=None, engine=None):
    CHECKS[pid] = dict(title=title, fn=fn, text=text, note=note, technique=technique, design_ref=design_ref,
                       level=level, args=args or {}, engine=engine or fn.__module__.split(".")[-1])


KV_NOTE = ("Trusted: TLC, the KV.tla model as the statement of intended behaviour, the Go driver's key/value encoding "
           "and its recording of API results. Bounded: 12-key universe, histories of 40-60 calls, the listed configurations.")
KV_TECH = "TLA+ model (KV.tla) + TLC trace validation of real executions + TLC-generated behaviours replayed on the real DB"


def _kv(pid, title, text, ref):
    reg(pid, title, kv.run_kv, text, KV_NOTE, KV_TECH, ref, engine="kv")


_kv("C01", "Latest-state reads match the sequential model",
    "Every Get and full scan of the latest state, after every write step of seeded random and TLC-generated histories "
    "(all write kinds, batches, ingests, excises, forced flushes/compactions) under a matrix of DB configurations, is "
    "validated by TLC against the sequential model KV.tla; the model's own invariants are checked exhaustively in a small scope; "
    "EVERY call history of length 3 (thorough: 4) over a one-prefix universe is enumerated by TLC and replayed on the real DB; external "
    "ingestion (bounds cutting the file, synthetic suffix) is included as ordinary ingests.",
    "DESIGN 6/C01, 0.3a")
_kv("C02", "Iterator positioning matches the model",
    "Every iterator call (First/Last/SeekGE/SeekLT/SeekPrefixGE/Next/Prev/NextPrefix, SetBounds, SetOptions) of random and "
    "TLC-generated op sequences is validated by TLC against KV.tla's cursor semantics across LSM shapes; the 'never outside "
    "bounds / prefix' clauses are model invariants checked exhaustively.", "DESIGN 6/C02")
_kv("C03", "Snapshots are stable", "Reads through snapshots (Get, scans, snapshot iterators) re-issued after every later write, "
    "flush, compaction, ingest and format upgrade are validated by TLC against the pinned copy of the model state; every call history "
    "of length 3 (thorough: 4) with snapshots over a one-prefix universe is enumerated by TLC and replayed.", "DESIGN 6/C03, 0.3a")
_kv("C04", "Iterators and clones keep a fixed view", "Long-lived iterators, clones and indexed-batch iterators are re-walked after "
    "every later write/flush/compaction/ingest/excise/batch mutation; TLC validates every position against the view pinned at "
    "creation (or at the last refresh).", "DESIGN 6/C04")
_kv("C05", "Indexed batch reads", "Batch Get/scans/iterators are validated by TLC against ApplyBatch(committed state, batch ops); DB "
    "reads while batches are open (no leak) and after close-without-commit are validated too.", "DESIGN 6/C05")
_kv("C08", "Range keys: visible set and defragmented bounds", "HasPointAndRange/RangeBounds/RangeKeys at every iterator position and "
    "the defragmented spans of full scans are validated by TLC against the model's maximal clipped spans, across LSM shapes that "
    "fragment the same logical range keys differently.", "DESIGN 6/C08")
_kv("C09", "Range-key masking", "Iterator results under RangeKeyMasking (with and without the block-property filter mask) are each "
    "validated by TLC against the rule mask <= r < p, including points of externally ingested tables read with a synthetic suffix.", "DESIGN 6/C09, 0.3a")
_kv("C14", "Background maintenance never changes reads", "Latest state, every open snapshot/EFOS and every open iterator are re-read "
    "after each forced flush/compaction/format upgrade and validated by TLC against the model (Maintenance is a stuttering step); "
    "every call history of length 3 (thorough: 4) with flush/compact steps over a one-prefix universe is enumerated by TLC and replayed.",
    "DESIGN 6/C14, 0.3a")
_kv("C36", "Ingest and excise behave like their logical equivalents", "Ingest == one batch, IngestAndExcise == excise then batch, Excise "
    "removes the span; reads after each step and open iterators across excises are validated by TLC against the model.", "DESIGN 6/C36")
_kv("C37", "EFOS keep their protected view", "Reads through eventually-file-only snapshots inside their protected ranges, before and after "
    "the forced file-only transition and across overlapping excises, are validated by TLC against the pinned model state.", "DESIGN 6/C37")
_kv("C38", "Checkpoints open to a consistent, complete state", "Checkpoints (with/without WithFlushedWAL, with restricted spans) taken at random "
    "history positions are opened with the real Open and fully read; TLC requires the state to be a prefix of the history containing every "
    "acknowledged entry (exactly the visible state with a flushed WAL; equality inside the spans when restricted); writes issued from inside "
    "the Checkpoint call (after it captured its view) must leave it a prefix between the call's begin and return. One known finding (KNOWN_FINDINGS).", "DESIGN 6/C38, 0.3a")
_kv("C44", "Separated values read back identically", "The C01/C03/C04 workloads under value-separation policies whose thresholds straddle the driver's "
    "value sizes (blob rewrite enabled, ingests, snapshots, long-lived iterators): every value is decoded byte for byte by the driver and every read "
    "validated by TLC; the evidence reports how many blob files were live. Crash behaviour of separated values is exercised by the crash engine's "
    "crashvs configuration (C10/C11).", "DESIGN 6/C44")
_kv("C45", "Internal scans reproduce the visible state", "ScanInternal over random spans of the DB and of snapshots (collapsed and with obsolete keys) is replayed "
    "into an empty real DB; TLC requires the replica's visible state inside the span to equal the model's view of the source.", "DESIGN 6/C45")
_kv("C47", "Close releases everything", "Every workload ends by closing all handles and the DB: Close must return nil, the goroutine count must return to its "
    "baseline, no file or lock may stay open on the counting filesystem, and the directory must reopen to exactly the model state (TLC).", "DESIGN 6/C47")


def _discover():
    """engine modules other than kv register themselves: def REGISTER(reg): reg(pid, title, fn, text, note, technique, design_ref, ...)"""
    here = os.path.dirname(os.path.abspath(__file__))
    for f in sorted(os.listdir(here)):
        if not f.endswith(".py") or f in ("__init__.py", "registry.py", "kv.py"):
            continue
        try:
            m = importlib.import_module("engines." + f[:-3])
            if hasattr(m, "REGISTER"):
                m.REGISTER(reg)
            for d, mod in getattr(m, "SPEC_MODULES", []):
                if (d, mod) not in SPEC_MODULES:
                    SPEC_MODULES.append((d, mod))
        except Exception:
            vlib.log("WARNING: engine module %s failed to load:\n%s" % (f, traceback.format_exc()))


def manifest():
    checks = []
    for pid in sorted(CHECKS):
        c = CHECKS[pid]
        checks.append({
            "property_id": pid,
            "quick_cmd": "python3 vcheck run %s --tier quick" % pid,
            "thorough_cmd": "python3 vcheck run %s --tier thorough" % pid,
            "evidence_file": "/verif/evidence/%s.json" % pid,
            "replay_cmd_template": "python3 vcheck replay {path}",
            "engine": c["engine"],
            "level_claimed": {"category": c["level"], "text": c["text"], "design_ref": c["design_ref"]},
            "level_note": c["note"],
            "technique": c["technique"],
        })
    engines = {}
    for pid, c in CHECKS.items():
        engines.setdefault(c["engine"], []).append(pid)
    return {
        "version": 1,
        "setup_cmd": "python3 vcheck setup",
        "hooks": {
            "guard": "verif",
            "enable": "go test -tags verif -overlay=<generated from /verif/harness/overlay> -c (drivers are added to /repo packages through the overlay; in /repo only internal/verifhook and its Point/Value call sites exist, no-ops without the tag)",
            "baseline_off_cmd": "cd /repo && go test -vet=off -count=1 -timeout 25m ./...",
            "source_commits": ["0f5976a3d", "653173447", "b7b0d8f15"],
            "add_only": True,
        },
        "engines": [{"name": n, "path": "engines/%s.py" % n, "serves_properties": sorted(p),
                     "kind_free_text": "TLA+ spec + TLC + Go conformance driver"} for n, p in sorted(engines.items())],
        "checks": checks,
        "notes": "See DESIGN.md. Every check: TLC design-level run + conformance of the real code against the spec.",
        "not_applicable": [{"property_id": p, "reason": r} for p, r in NOT_APPLICABLE if p not in CHECKS] +
                          [{"property_id": "C%02d" % i, "reason": "not yet built in this round; planned per DESIGN 6"}
                           for i in range(1, 48) if "C%02d" % i not in CHECKS and "C%02d" % i not in [x[0] for x in NOT_APPLICABLE]],
    }


def selftest(quick=False):
    for d, m in SPEC_MODULES:
        vlib.sany(os.path.join(vlib.SPEC, d), m)
        vlib.log("  sany ok: %s/%s" % (d, m))


def setup():
    """build everything that can be built ahead (warms the Go build cache) and parse all specs"""
    selftest(quick=True)
    pkgs = set()
    for root, _, files in os.walk(vlib.OVERLAY):
        if any(f.endswith("_test.go") for f in files):
            pkgs.add(os.path.relpath(root, vlib.OVERLAY))
    for p in sorted(pkgs):
        vlib.build_driver(p)
    vlib.log("setup ok")


_discover()
