"""WAL engine: record log wire format, LogWriter flush loop, WAL failover.
  C18  RecordLog.tla   design: chunk-level wire-format/reader model, exhaustive (scaled-down constants) + Bug cfgs
                       mode A: TLC enumerates boundary-class cases with the real constants, the in-package
                       `record` driver executes them on the real Writer/LogWriter/Reader, TLC (RecordLogTrace)
                       decides.
  C19  RecordLog.tla   same machinery, damage inside synced WAL-sync data (reader level) + DB-level Open.
  C20  LogWriter.tla   design: exhaustive + Bug cfgs; mode B/C: real LogWriter over logging, gating,
                       fault-injecting Writer/Syncer/pendingSyncs wrappers, TLC (LogWriterTrace) decides.
  C21  Failover.tla    design: exhaustive + Bug cfgs; TLC-generated schedules forced on the real failoverWriter
                       over blocking/failing MemFS dirs; real Scan+reader; TLC (FailoverTrace) decides.
"""
import glob, json, os, random, re, shutil
import vlib

W = 4 if os.environ.get("VERIF_DEV") else min(vlib.NCPU, 8)
# driver binaries built from a scratch worktree (VERIF_REPO) must not overwrite the ones built from /repo
SFX = "" if vlib.REPO == "/repo" else "_" + vlib.sha(vlib.REPO)


# --------------------------------------------------------------------------
# shared helpers
def split_runs(path):
    """a trace file holds runs separated by {"op":"reset"} lines -> list of (first_line_no, [lines])"""
    runs, cur, start = [], [], 0
    for i, l in enumerate(open(path)):
        l = l.rstrip("\n")
        if not l:
            continue
        cur.append(l)
        if l.startswith('{"op":"reset"'):
            runs.append((start, cur))
            cur, start = [], i + 1
    if cur:
        runs.append((start, cur))
    return runs


def validate_runs(run, specdir, module, cfg, runs, vocabulary, label, extra_files=None, keep_name="trace",
                  max_viol=8, timeout=1500, heap="6g", describe=None, drift_ops=()):
    """Validate a list of runs (each a list of NDJSON lines ending in reset) in as few TLC
    invocations as possible.  A rejected event inside `vocabulary` is a violation of the
    property by the real code; a rejected event outside it is the machinery's problem."""
    wd = vlib.scratch("verif.walv.")
    remaining = list(runs)
    accepted_runs = 0
    events = 0
    rejected = 0
    while remaining:
        p = os.path.join(wd, "all.ndjson")
        with open(p, "w") as o:
            for r in remaining:
                o.write("\n".join(r) + "\n")
        v = vlib.validate_trace(specdir, module, cfg, p, timeout=timeout, heap=heap, extra_files=extra_files)
        events += v.hwm
        if v.accepted:
            accepted_runs += len(remaining)
            break
        if v.tlc.violation or ("Error:" in v.tlc.out and "TraceAccepted" not in v.tlc.out):
            raise vlib.Inconclusive("trace spec error during validation (%s):\n%s" % (module, v.tlc.out[-3000:]))
        c = 0
        hit = None
        for i, r in enumerate(remaining):
            if c + len(r) > v.hwm:
                hit = (i, v.hwm - c)
                break
            c += len(r)
        if hit is None:
            raise vlib.Inconclusive("cannot locate the rejected line (hwm=%d)" % v.hwm)
        i, off = hit
        accepted_runs += i
        ev = v.rejected_line
        if isinstance(ev, dict) and ev.get("op") in drift_ops:
            # structural mismatch between the model and the code that is not an observable failure: not an alarm
            d = run.cov.setdefault("drift", {})
            d[ev.get("op")] = d.get(ev.get("op"), 0) + 1
            if d[ev.get("op")] <= 3:
                vlib.log("DRIFT module=%s event=%s %s" % (module, ev.get("op"), describe(remaining[i], off) if describe else ""))
            if sum(d.values()) > 200:
                raise vlib.Inconclusive("%s: more than 200 drift events (model and code disagree structurally)" % module)
            remaining = remaining[i + 1:]
            continue
        if not (isinstance(ev, dict) and ev.get("op") in vocabulary):
            raise vlib.Inconclusive("%s: trace rejected at an event outside the property's vocabulary: %s\ncontext: %s"
                                    % (module, str(ev)[:300], "\n".join(remaining[i][max(0, off - 6):off + 1])[:1500]))
        keep = os.path.join(run.outdir, "%s_%d.ndjson" % (keep_name, rejected))
        open(keep, "w").write("\n".join(remaining[i]) + "\n")
        sig = {"kind": "trace-rejected", "op": ev.get("op"), "label": label}
        text = "%s rejected the real code's trace at event %d of a run: %s" % (module, off + 1, json.dumps(ev)[:400])
        if describe:
            text += " | " + describe(remaining[i], off)
        run.violation(sig, text, replay_obj={"trace": keep, "line": off + 1, "module": module,
                                             "cmd": "python3 /verif/vcheck run %s --tier %s --seed %d" % (run.prop, run.tier, run.seed)})
        rejected += 1
        remaining = remaining[i + 1:]
        if rejected >= max_viol:
            break
    return accepted_runs, events, rejected


def must_reject(specdir, module, cfg, lines, what, extra_files=None, at=None):
    wd = vlib.scratch("verif.walb.")
    p = os.path.join(wd, "b.ndjson")
    open(p, "w").write("\n".join(lines) + "\n")
    v = vlib.validate_trace(specdir, module, cfg, p, extra_files=extra_files, heap="1g")
    if v.accepted:
        raise vlib.Inconclusive("binding demo: %s was ACCEPTED by %s" % (what, module))
    if at is not None and v.hwm != at:
        raise vlib.Inconclusive("binding demo: %s: TLC stopped at line %d, expected %d" % (what, v.hwm + 1, at + 1))
    return v


def must_accept(specdir, module, cfg, lines, what, extra_files=None):
    wd = vlib.scratch("verif.walb.")
    p = os.path.join(wd, "a.ndjson")
    open(p, "w").write("\n".join(lines) + "\n")
    v = vlib.validate_trace(specdir, module, cfg, p, extra_files=extra_files, heap="1g")
    if not v.accepted:
        raise vlib.Inconclusive("binding demo: %s (unmodified) was rejected by %s at line %d" % (what, module, v.hwm + 1))


def seeded_bugs(run, specdir, module, bugs, workers=None):
    for cfg, expect in bugs:
        r = vlib.tlc_must_fail(specdir, module, cfg, expect=expect, workers=workers or W, timeout=600)
        run.design["%s/%s" % (module, cfg)] = dict(caught=r.violation, generated=r.generated, wall_s=round(r.wall, 1))


# --------------------------------------------------------------------------
# C20  LogWriter
LW = os.path.join(vlib.SPEC, "LogWriter")
LW_BUGS = [("Bug_ReadWrittenFirst.cfg", "ReleasedImpliesSynced"), ("Bug_PopBeforeSync.cfg", "ReleasedImpliesSynced"),
           ("Bug_IgnoreFErr.cfg", "ReleasedImpliesSynced"), ("Bug_ReadWrittenFirstIndex.cfg", "ReleasedImpliesSynced")]


def lw_schedules(run, n_walks, seed, out_path):
    """TLC simulation of LogWriterSched = LogWriter + a history of which thread moved.
    Each complete behaviour gives one interleaving string over P/F/T for the gate scheduler."""
    r = vlib.tlc(LW, "LogWriterSched", "LogWriterSched.cfg", workers=1, timeout=600, simulate="num=%d" % n_walks,
                 depth=400, seed=seed, deadlock_check=False)
    if r.timed_out or r.violation:
        raise vlib.Inconclusive("LogWriterSched simulation failed (%s)\n%s" % (r.violation, r.out[-2000:]))
    seen = set()
    rng = random.Random(seed)
    n = 0
    with open(out_path, "w") as o:
        for l in r.out.splitlines():
            m = re.match(r'^<<"SCHED", "([PFT]*)", (\d+), (\d+)>>', l)
            if not m:
                continue
            s, fw, fs = m.group(1), int(m.group(2)), int(m.group(3))
            if (s, fw, fs) in seen:
                continue
            seen.add((s, fw, fs))
            if rng.random() < .55:   # keep the interleaving, drop the failure
                fw = fs = 0
            k = rng.randint(3, 8)
            sizes, syncs = [], []
            for i in range(k):
                c = rng.random()
                sizes.append(rng.randint(0, 200) if c < .55 else rng.randint(3000, 12000) if c < .75 else
                             32768 - 19 - 40 + rng.randint(0, 80) if c < .85 else 32768 + rng.randint(0, 32768))
                syncs.append(rng.random() < .6)
            case = dict(index=rng.random() < .33, walsync=rng.random() < .5, minsync=True, sizes=sizes, sync=syncs,
                        failw=fw, fails=fs, gated=True, sched=s, schedsrc="tlc")
            o.write(json.dumps(case) + "\n")
            n += 1
    run.design["LogWriterSched/simulate"] = dict(walks=n_walks, distinct_schedules=n, generated=r.generated, wall_s=round(r.wall, 1))
    run.transitions += r.generated
    return n


def c20_describe(lines, off):
    ev = json.loads(lines[off])
    if ev.get("op") != "released":
        return ""
    end = None
    for l in lines[:off]:
        e = json.loads(l)
        if e.get("op") == "record" and e.get("i") == ev.get("i"):
            end = e.get("end")
    return "waiter %s released with err=%s while the file was synced up to %s; its record ends at %s" % (
        ev.get("i"), ev.get("err"), ev.get("synced"), end)


def run_c20(run):
    quick = run.tier == "quick"
    cfgs = ["LogWriter.cfg", "LogWriterIndex.cfg"] if quick else \
        ["LogWriter.cfg", "LogWriterIndex.cfg", "LogWriter4.cfg", "LogWriterThorough.cfg", "LogWriterThoroughIndex.cfg",
         "LogWriter6.cfg", "LogWriterLive.cfg"]
    jobs = [(c, (lambda c=c, e=e: vlib.tlc_must_fail(LW, "LogWriter", c, expect=e, workers=2, timeout=600, heap="2g"))) for c, e in LW_BUGS]
    for c in cfgs:
        jobs.append((c, (lambda c=c: vlib.tlc_must_pass(LW, "LogWriter", c, workers=max(2, W // 2), timeout=1500,
                                                         coverage=(c == "LogWriter.cfg"), heap="8g" if not quick else "3g"))))
    res = parallel_tlc(jobs, nproc=3)
    for c, e in LW_BUGS:
        run.design["LogWriter/" + c] = dict(caught=res[c].violation, generated=res[c].generated, wall_s=round(res[c].wall, 1))
    for c in cfgs:
        run.add_design("LogWriter/" + c, res[c])
        nt = run.design["LogWriter/" + c].get("never_taken")
        if nt:
            raise vlib.Inconclusive("LogWriter/%s: actions never taken (vacuous): %s" % (c, nt))
    binp = vlib.build_driver("record", name="wal_record" + SFX)
    tdir = vlib.scratch("verif.c20.")
    sf = os.path.join(tdir, "sched.jsonl")
    nsched = lw_schedules(run, 150 if quick else 1500, run.seed, sf)
    env = dict(VERIF_OUT=tdir, VERIF_SEED=str(run.seed), VERIF_RUNS=str(250 if quick else 4000), VERIF_SCHEDFILE=sf,
               VERIF_PERFILE="100000")
    rc, out = vlib.run_driver(binp, "TestVWalC20$", env=env, timeout=1500)
    if "DRIVER-DONE" not in out:
        raise vlib.Inconclusive("record driver TestVWalC20 died:\n" + out[-3000:])
    files = sorted(glob.glob(os.path.join(tdir, "c20_*.ndjson")))
    runs = []
    for f in files:
        runs += [r for _, r in split_runs(f)]
    if not runs:
        raise vlib.Inconclusive("no C20 traces produced")
    vocab = {"released", "end", "refused"}
    acc, events, rejected = validate_runs(run, LW, "LogWriterTrace", "LogWriterTrace.cfg", runs, vocab, "C20",
                                          keep_name="c20", describe=c20_describe)
    run.traces += acc
    # binding demonstration on an accepted real run
    if rejected == 0:
        demo = None
        for r in runs:
            evs = [json.loads(l) for l in r]
            rel = [i for i, e in enumerate(evs) if e["op"] == "released" and not e["err"]]
            se = [i for i, e in enumerate(evs) if e["op"] == "syncend" and not e["err"]]
            # exactly one successful sync precedes the first clean release: dropping it must break that release
            if rel and se and se[0] < rel[0] and sum(1 for i in se if i < rel[0]) == 1 and evs[rel[0]]["synced"] > 0:
                demo = (r, evs, rel[0], se[0])
                break
        if demo is None:
            raise vlib.Inconclusive("binding demo: no run with a clean release found")
        r, evs, ri, si = demo
        must_accept(LW, "LogWriterTrace", "LogWriterTrace.cfg", r, "a real C20 run")
        end = [e["end"] for e in evs if e["op"] == "record" and e["i"] == evs[ri]["i"]][0]
        c = dict(evs[ri])
        c["synced"] = end - 1
        must_reject(LW, "LogWriterTrace", "LogWriterTrace.cfg", r[:ri] + [json.dumps(c)] + r[ri + 1:],
                    "a release with synced offset one byte short of the record end", at=ri)
        must_reject(LW, "LogWriterTrace", "LogWriterTrace.cfg", r[:si] + r[si + 1:], "a run with its first syncend event dropped")
        run.cov["binding_demo"] = ("an accepted real run was re-validated with (a) one release's synced offset set one byte short "
                                   "of its record end and (b) one syncend event dropped: TLC rejected both")
    # coverage
    rel = relerr = gated = windows = 0
    distinct = set()
    for r in runs:
        evs = [json.loads(l) for l in r]
        nrel = sum(1 for e in evs if e["op"] == "released")
        rel += nrel
        relerr += sum(1 for e in evs if e["op"] == "released" and e["err"])
        if evs and evs[0].get("gated"):
            gated += 1
        if nrel >= 1:
            distinct.add(vlib.sha("\n".join(r)))
    run.cov["evaluations"] = rel
    run.cov["distinct_nontrivial"] = len(distinct)
    run.cov["rule"] = ("evaluations = waiter releases checked by LogWriterTrace (ReleasedImpliesSynced / ErrorsOnlyAfterFault) on real "
                       "LogWriter executions; a run is non-trivial when at least one waiter was released; distinct by trace hash. "
                       "%d runs (%d gated: the flusher is stepped gate by gate between snapshotForPop, written.Load, Write, Sync, pop; "
                       "%d of them follow TLC-generated interleavings), %d releases carried an injected error"
                       % (len(runs), gated, nsched, relerr))
    run.cov["trace_events"] = events
    run.cov["runs"] = len(runs)
    run.cov["tlc_schedules"] = nsched
    for r in runs[:2]:
        run.sample({"first_events": [json.loads(l) for l in r[:10]]})
    m = re.search(r"C20-STUCK (\d+)", out)
    run.cov["stuck_runs"] = int(m.group(1)) if m else -1
    run.assumptions += [
        "LogWriter.tla counts in units (record = 1 unit, block = C units); the trace spec uses real byte offsets",
        "a failed Write contributes no bytes; after a failed Write or Sync nothing later counts as written/synced",
        "waiters read the file's synced length after waking up: monotone, so a too-small value is a sound witness",
        "gates sit in wrappers (io.Writer/Syncer, pendingSyncs interface, afterFunc); no hook in log_writer.go",
    ]


# --------------------------------------------------------------------------
# C18 / C19  RecordLog
RL = os.path.join(vlib.SPEC, "RecordLog")
BS = 32768
RL_BUGS18 = [("Bug_LegacyOverlay.cfg", "Inv"), ("Bug_AcceptStaleLogNum.cfg", "Inv"), ("Bug_TrailerSameLogNum.cfg", "Inv")]
RL_BUGS19 = [("Bug_ReadAheadGE.cfg", "Inv"), ("Bug_NoReadAhead.cfg", "Inv")]


def parallel_tlc(jobs, nproc=3):
    """jobs: list of (key, callable) -> {key: result}; exceptions are re-raised"""
    from concurrent.futures import ThreadPoolExecutor
    res = {}
    with ThreadPoolExecutor(max_workers=nproc) as ex:
        futs = [(k, ex.submit(fn)) for k, fn in jobs]
        for k, f in futs:
            res[k] = f.result()
    return res


def rl_design(run, bugs, cfgs):
    jobs = []
    for cfg, expect in bugs:
        jobs.append((cfg, (lambda c=cfg, e=expect: vlib.tlc_must_fail(RL, "RecordLogCheck", c, expect=e, workers=2, timeout=900))))
    for cfg in cfgs:
        jobs.append((cfg, (lambda c=cfg: vlib.tlc_must_pass(RL, "RecordLogCheck", c, workers=max(2, W // 2), timeout=2400, heap="8g"))))
    res = parallel_tlc(jobs, nproc=3)
    for cfg, expect in bugs:
        r = res[cfg]
        run.design["RecordLogCheck/" + cfg] = dict(caught=r.violation, generated=r.generated, wall_s=round(r.wall, 1))
    for cfg in cfgs:
        run.add_design("RecordLogCheck/" + cfg, res[cfg])


def rl_layouts(run, maxrecs, extra):
    """TLC (real constants) enumerates the boundary-class size vectors (+ extra vectors) -> layouts with cut points"""
    ex = "---- MODULE RecordLogExtra ----\nExtraVecs == {%s}\n====\n" % ", ".join("<<%s>>" % ", ".join(map(str, v)) for v in extra)
    cfg = open(os.path.join(RL, "RecordLogGen.cfg")).read().replace("MaxRecs = 2", "MaxRecs = %d" % maxrecs)
    r = vlib.tlc(RL, "RecordLogGen", "RecordLogGenRun.cfg", workers=1, timeout=1500, heap="6g",
                 extra_files={"RecordLogExtra.tla": ex.encode(), "RecordLogGenRun.cfg": cfg.encode()})
    if r.timed_out or not r.ok:
        raise vlib.Inconclusive("RecordLogGen failed (%s)\n%s" % (r.violation, r.out[-2000:]))
    lays = []
    for l in r.out.splitlines():
        if l.startswith('"{'):
            try:
                lays.append(json.loads(json.loads(l)))
            except Exception:
                pass
    if not lays:
        raise vlib.Inconclusive("RecordLogGen produced no layouts")
    run.design["RecordLogGen(B=32768,7/11/19,MaxRecs=%d,+%d extra vectors)" % (maxrecs, len(extra))] = dict(
        layouts=len(lays), cut_points=sum(len(x["cuts"]) for x in lays), wall_s=round(r.wall, 1))
    run.transitions += r.generated
    return lays


def rl_extra_vectors(rng, n, big=False):
    """seeded vectors of 3..6 sizes over boundary-ish classes (valid for every format)"""
    cls = [0, 1, 2, 40, 300, 5000, BS - 60, BS - 38, BS - 22, BS - 19, BS - 11, BS - 7, BS, BS + 1, 2 * BS - 30, 2 * BS + 1]
    out = []
    for _ in range(n):
        k = rng.randint(3, 6)
        v = [rng.choice(cls) if rng.random() < .7 else rng.randint(0, 3 * BS) for _ in range(k)]
        if big and sum(v) < BS:
            v[rng.randrange(k)] = rng.choice([BS, 2 * BS + 1, BS + 5000])
        out.append(v)
    return out


def rl_run_cases(run, cases, label):
    binp = vlib.build_driver("record", name="wal_record" + SFX)
    tdir = vlib.scratch("verif.rl.")
    cf = os.path.join(tdir, "cases.jsonl")
    with open(cf, "w") as o:
        for c in cases:
            o.write(json.dumps(c) + "\n")
    rc, out = vlib.run_driver(binp, "TestVWalRecordLog$", env=dict(VERIF_OUT=tdir, VERIF_CASEFILE=cf), timeout=2400)
    if "DRIVER-DONE" not in out:
        raise vlib.Inconclusive("record driver TestVWalRecordLog died:\n" + out[-3000:])
    runs = [r for _, r in split_runs(os.path.join(tdir, "recordlog.ndjson"))]
    if len(runs) != len(cases):
        raise vlib.Inconclusive("driver produced %d results for %d cases" % (len(runs), len(cases)))
    return runs


def rl_describe(lines, off):
    ev = json.loads(lines[0])
    return "case %s fmt=%s sizes=%s closed=%s tail=%s at=%s damage=[%s,%s) %s -> reader returned records %s then %s" % (
        ev.get("id"), ev.get("fmt"), ev.get("sizes"), ev.get("closed"), ev.get("tail"), ev.get("at"), ev.get("dlo"), ev.get("dhi"),
        ev.get("dkind"), ev.get("recs"), ev.get("term"))


import time as _time


def _t(msg, t0):
    vlib.log("  [%5.1fs] %s" % (_time.time() - t0, msg))


def rl_validate(run, runs, label):
    """split the cases over a few TLC processes; rresult rejections are violations, rconform/rlayout are drift"""
    nproc = 4 if len(runs) > 1500 else 1
    chunks = [runs[i::nproc] for i in range(nproc)]
    vocab = {"rresult"}

    def one(ch):
        return validate_runs(run, RL, "RecordLogTrace", "RecordLogTrace.cfg", ch, vocab, label, keep_name=label.lower(),
                             describe=rl_describe, timeout=2400, heap="3g", drift_ops=("rconform", "rlayout"))
    # Pass 1 decides the property: only the case and its rresult line (a code change that also moves the
    # layout must not drown the property's verdict in drift).  Pass 2 replays the full cases for the
    # model-conformance lines; too much drift there without any violation is the machinery's problem.
    def core(r):
        return [ln for ln in r if json.loads(ln).get("op") not in ("rconform", "rlayout")]

    def one_core(ch):
        return validate_runs(run, RL, "RecordLogTrace", "RecordLogTrace.cfg", [core(r) for r in ch], vocab, label,
                             keep_name=label.lower(), describe=rl_describe, timeout=2400, heap="3g")
    res1 = parallel_tlc([(i, (lambda c=ch: one_core(c))) for i, ch in enumerate(chunks) if ch], nproc=nproc)
    rej1 = sum(r[2] for r in res1.values())
    if rej1:
        return sum(r[0] for r in res1.values()), sum(r[1] for r in res1.values()), rej1
    res = parallel_tlc([(i, (lambda c=ch: one(c))) for i, ch in enumerate(chunks) if ch], nproc=nproc)
    acc = sum(r[0] for r in res.values())
    events = sum(r[1] for r in res.values())
    rej = sum(r[2] for r in res.values())
    return acc, events, rej


def rl_binding_demo(run, runs, pick):
    """corrupt one logged field of an accepted real case / drop one returned record -> TLC must reject at rresult"""
    cand = [r for r in runs if pick(json.loads(r[0]))]
    if not cand:
        raise vlib.Inconclusive("binding demo: no suitable accepted case")
    r = cand[len(cand) // 2]
    ev = json.loads(r[0])
    e1 = dict(ev)
    e1["recs"] = ev["recs"][:-1]
    must_reject(RL, "RecordLogTrace", "RecordLogTrace.cfg", [json.dumps(e1)] + r[1:], "a case with its last returned record dropped", at=1)
    e2 = dict(ev)
    e2["term"] = "INV" if ev["dkind"] == "none" else "EOF"
    must_reject(RL, "RecordLogTrace", "RecordLogTrace.cfg", [json.dumps(e2)] + r[1:], "a case with its terminal error class changed", at=1)
    run.cov["binding_demo"] = ("an accepted real case was re-validated with (a) its last returned record dropped and (b) its terminal "
                               "error class changed: TLC rejected both at the rresult event")


def run_c18(run):
    quick = run.tier == "quick"
    rng = random.Random(run.seed)
    rl_design(run, RL_BUGS18, ["RecordLog18.cfg"] if quick else ["RecordLog18.cfg", "RecordLog18Thorough.cfg", "RecordLog18Thorough3.cfg"])
    lays = rl_layouts(run, 2 if quick else 3, rl_extra_vectors(rng, 40 if quick else 400))
    rng.shuffle(lays)
    if quick:
        lays = lays[:200]
    elif len(lays) > 6000:
        lays = lays[:6000]
    cases = []
    per = 5 if quick else 14
    for L in lays:
        fmt, sizes, closed, ln = L["fmt"], L["sizes"], L["closed"], L["len"]
        syncs = sorted(rng.sample(range(1, len(sizes) + 1), rng.randint(0, len(sizes)))) if fmt == "walsync" else []
        base = dict(prop="C18", fmt=fmt, lognum=7, sizes=sizes, closed=closed, syncs=syncs, oldfmt=fmt, oldlog=6, oldsizes=[],
                    dlo=0, dhi=0, dkind="none")
        cases.append(dict(base, tail="cut", at=ln))                       # round trip
        cuts = L["cuts"]
        picks = cuts if (not quick and len(cuts) <= per) else rng.sample(cuts, min(per, len(cuts)))
        for at in picks:
            tails = ["cut", "zero"] + (["old", "old"] if fmt != "legacy" else [])
            tail = rng.choice(tails)
            c = dict(base, tail=tail, at=at)
            if tail == "old" and any(cl == 0 and off + 7 < at < off + hdr for off, hdr, cl, rec in L["chunks"]):
                # the replaced tail bytes of a header-only chunk may equal the old log's bytes (both zero): not modelled
                c["tail"] = tail = "cut"
            if tail == "old":
                # an older, longer log of the recycled file: same chunk boundaries (same sizes + more) or unrelated ones
                if rng.random() < .5:
                    c["oldsizes"] = sizes + [rng.choice([BS, 100, 2 * BS + 1]), 2 * BS]
                else:
                    c["oldsizes"] = [rng.choice([40000, 100, BS - 19, 7000]) for _ in range(3)] + [ln + BS]
                c["oldlog"] = rng.choice([6, 6, 4, 2])   # even: payload bytes disjoint from the new (odd) log
                c["oldfmt"] = fmt if rng.random() < .7 else "recyclable"
            cases.append(c)
    for i, c in enumerate(cases):
        c["id"] = i
    t0 = _time.time()
    runs = rl_run_cases(run, cases, "C18")
    _t("driver executed %d cases" % len(cases), t0)
    acc, events, rej = rl_validate(run, runs, "C18")
    _t("TLC validated", t0)
    run.traces += acc
    if rej == 0:
        rl_binding_demo(run, runs, lambda e: e["dkind"] == "none" and len(e["recs"]) >= 2 and e["tail"] == "cut" and e["at"] >= e["newlen"])
    evs = [json.loads(r[0]) for r in runs]
    nontriv = set()
    for e in evs:
        if e["at"] < e["newlen"] and e["newlen"] > 0:
            nontriv.add((e["fmt"], tuple(e["sizes"]), e["closed"], e["tail"], e["at"], e["oldlog"], e["oldlen"]))
    run.cov["evaluations"] = len(runs)
    run.cov["distinct_nontrivial"] = len(nontriv)
    run.cov["rule"] = ("one evaluation = one (format, size vector, closed?, sync points, mutilation) case written by the real Writer/LogWriter, "
                       "mutilated, read by the real Reader and decided by RecordLogTrace (exact clean prefix + clean end); non-trivial = the "
                       "mutilation removes or replaces at least one byte; distinct by (format, sizes, closed, tail, cut, old log)")
    run.cov["by_tail"] = {t: sum(1 for e in evs if e["tail"] == t) for t in ("cut", "zero", "old")}
    run.cov["by_format"] = {f: sum(1 for e in evs if e["fmt"] == f) for f in ("legacy", "recyclable", "walsync")}
    run.cov["terminals"] = {t: sum(1 for e in evs if e["term"] == t) for t in sorted(set(e["term"] for e in evs))}
    run.cov["layouts"] = len(lays)
    for r in runs[1:3]:
        e = json.loads(r[0])
        run.sample({k: e[k] for k in ("fmt", "sizes", "closed", "tail", "at", "oldlog", "newlen", "recs", "term")})
    run.assumptions += [
        "the file model works at chunk granularity: payload bytes are non-zero and never parse as a valid header (the driver writes such payloads)",
        "recycled-file overlay is promised for the recyclable and WAL-sync formats only (the legacy+overlay claim is a seeded bug that TLC refutes)",
        "for mutilated files EOF and ErrUnexpectedEOF are both accepted as the end of the log; an intact log must end with io.EOF",
        "byte identity of returned records is established by the driver's comparison with what it wrote (transport), not by the spec",
    ]


def run_c19(run):
    quick = run.tier == "quick"
    rng = random.Random(run.seed * 7919 + 19)
    rl_design(run, RL_BUGS19, ["RecordLog19.cfg"] if quick else ["RecordLog19.cfg", "RecordLog19Thorough.cfg"])
    lays = rl_layouts(run, 2 if quick else 3, rl_extra_vectors(rng, 60 if quick else 500, big=True))
    lays = [L for L in lays if L["fmt"] == "walsync" and L["closed"] and L["len"] > 0]
    rng.shuffle(lays)
    multi = [L for L in lays if L["len"] > BS]
    single = [L for L in lays if L["len"] <= BS]
    lays = (multi[:100] + single[:15]) if quick else (multi[:3000] + single[:300])
    cases = []
    for L in lays:
        sizes, ln, chunks = L["sizes"], L["len"], L["chunks"]
        n = len(sizes)
        variants = [list(range(1, n + 1)), list(range(1, n + 1)), []] + [sorted(rng.sample(range(1, n + 1), rng.randint(1, n)))]
        for syncs in (variants if not quick else [rng.choice(variants), rng.choice(variants)]):
            base = dict(prop="C19", fmt="walsync", lognum=7, sizes=sizes, closed=True, syncs=syncs, oldfmt="walsync", oldlog=6, oldsizes=[],
                        tail="cut", at=ln)
            real = [c for c in chunks if c[3] > 0]
            chosen = real if not quick else rng.sample(real, min(3, len(real)))
            for off, hdr, clen, rec in chosen:
                dm = [(off, off + hdr + clen, "zero"), (off, off + hdr + clen, "flip")]
                for p in (0, 4, 6, 7, 11, hdr, hdr + clen - 1):
                    if p < hdr + clen:
                        dm.append((off + p, off + p + 1, "flip"))
                blk = off // BS
                if off % BS == 0:
                    dm.append((blk * BS, min((blk + 1) * BS, ln), "zero"))
                for lo, hi, kind in (dm if not quick else rng.sample(dm, min(4, len(dm)))):
                    cases.append(dict(base, dlo=lo, dhi=hi, dkind=kind))
    for i, c in enumerate(cases):
        c["id"] = i
    t0 = _time.time()
    runs = rl_run_cases(run, cases, "C19")
    _t("driver executed %d cases" % len(cases), t0)
    acc, events, rej = rl_validate(run, runs, "C19")
    _t("TLC validated", t0)
    run.traces += acc
    if rej == 0:
        rl_binding_demo(run, runs, lambda e: e["term"] in ("INV", "ZERO") and len(e["recs"]) >= 1)
    evs = [json.loads(r[0]) for r in runs]
    run.cov["evaluations"] = len(runs)
    run.cov["distinct_nontrivial"] = len(set((tuple(e["sizes"]), e["dlo"], e["dhi"], e["dkind"], json.dumps([c[6] for c in e["new"]])) for e in evs))
    run.cov["rule"] = ("one evaluation = one WAL-sync log written by the real LogWriter with real sync points, one damaged chunk (byte flip in a header "
                       "field or payload, whole chunk flipped or zeroed, whole block zeroed), read by the real Reader and decided by RecordLogTrace; "
                       "every case is non-trivial (bytes are damaged); distinct by (sizes, damage, observed sync offsets)")
    run.cov["terminals"] = {t: sum(1 for e in evs if e["term"] == t) for t in sorted(set(e["term"] for e in evs))}
    run.cov["reported_corruption"] = sum(1 for e in evs if e["term"] in ("INV", "ZERO"))
    run.cov["end_of_log"] = sum(1 for e in evs if e["term"] == "UEOF")
    # finding (not a verdict): a damaged header-only chunk whose end equals a later chunk's sync offset reads as end of log
    nb = 0
    for e in evs:
        dc = [c for c in e["new"] if c[0] <= e["dlo"] < c[0] + c[1] + c[2]]
        if dc and dc[0][2] == 0 and e["term"] == "UEOF" and any(c[0] // BS > dc[0][0] // BS and c[6] == dc[0][0] + dc[0][1] for c in e["new"]):
            nb += 1
    run.cov["empty_chunk_boundary_cases_read_as_end_of_log"] = nb
    if nb > 0:
        # the property's clause holds for every record that has a payload; for an EMPTY record (a header-only chunk, which a
        # real WAL never contains: every batch has a 12-byte header) it does not: known finding, reported each run while it exists
        run.violation({"kind": "damaged-empty-chunk-at-sync-boundary-read-as-end-of-log"},
                      "%d damaged header-only chunks whose end equals a later chunk's sync offset were read as end of log "
                      "(ErrUnexpectedEOF) instead of corruption" % nb)
    for r in runs[1:3]:
        e = json.loads(r[0])
        run.sample({k: e[k] for k in ("sizes", "dlo", "dhi", "dkind", "new", "recs", "term")})
    c19_open(run, quick)
    run.assumptions += [
        "a later intact chunk 'shows' that damage was synced when it lies in a later 32 KiB block, is reachable from that block's start through intact "
        "chunks, and its sync offset covers the whole damaged chunk; when the sync offset falls inside the damaged chunk either outcome is accepted",
        "damage whose chunk start is not covered by any later sync offset must read as an end of log (ErrUnexpectedEOF), never as corruption",
        "sync offsets are the ones the real LogWriter wrote (read back from the chunk headers); the writer-side soundness is LogWriter!SyncedOffSound (C20)",
    ]


def c19_open(run, quick):
    """end to end: Open on a DB whose WAL has damage inside synced data must fail with ErrCorruption"""
    binp = vlib.build_driver("internal/verif/waldrv", name="wal_waldrv" + SFX)
    tdir = vlib.scratch("verif.c19o.")
    rc, out = vlib.run_driver(binp, "TestVWalOpenCorruption$", env=dict(VERIF_OUT=tdir, VERIF_SEED=str(run.seed),
                                                                         VERIF_RUNS=str(12 if quick else 150)), timeout=1500)
    if "DRIVER-DONE" not in out:
        raise vlib.Inconclusive("waldrv TestVWalOpenCorruption died:\n" + out[-3000:])
    runs = [r for _, r in split_runs(os.path.join(tdir, "opencorr.ndjson"))]
    if not runs:
        raise vlib.Inconclusive("waldrv produced no reopen cases")

    def describe(lines, off):
        e = json.loads(lines[off])
        return "WAL chunks %s damaged at [%s,%s) %s -> Open: %s, batches present %s" % (e["new"], e["dlo"], e["dhi"], e["dkind"], e["cls"], e["present"])
    acc, events, rej = validate_runs(run, RL, "OpenCorruptionTrace", "OpenCorruptionTrace.cfg", runs, {"reopen"}, "C19-open", keep_name="c19open",
                                     describe=describe, heap="2g")
    run.traces += acc
    evs = [json.loads(r[0]) for r in runs]
    run.cov["open_level_cases"] = len(runs)
    run.cov["open_level_outcomes"] = {c: sum(1 for e in evs if e["cls"] == c) for c in sorted(set(e["cls"] for e in evs))}
    run.cov["evaluations"] += len(runs)


# --------------------------------------------------------------------------
# C21  Failover
FO = os.path.join(vlib.SPEC, "Failover")
FO_BUGS = [("Bug_DedupLT.cfg", "Inv"), ("Bug_NoReplay.cfg", "Inv"), ("Bug_PopBeyondSync.cfg", "Inv"),
           ("Bug_GrowCopyUnwrapped.cfg", "Inv"), ("Bug_ReclaimAfterPut.cfg", "Inv")]


def fo_schedules(run, walks, seed, syncset, n=6, w=4, qcap=2):
    cfg = open(os.path.join(FO, "FailoverGen.cfg")).read()
    cfg = cfg.replace("SyncSet = {2, 3, 5, 6}", "SyncSet = {%s}" % ", ".join(map(str, syncset)))
    cfg = cfg.replace("N = 6", "N = %d" % n).replace("W = 4", "W = %d" % w).replace("QCap = 2", "QCap = %d" % qcap)
    r = vlib.tlc(FO, "FailoverGen", "FailoverGenRun.cfg", workers=1, timeout=900, simulate="num=%d" % walks, depth=300, seed=seed,
                 deadlock_check=False, extra_files={"FailoverGenRun.cfg": cfg.encode()}, heap="2g")
    if r.timed_out or r.violation:
        raise vlib.Inconclusive("FailoverGen simulation failed (%s)\n%s" % (r.violation, r.out[-2000:]))
    out, seen = [], set()
    for l in r.out.splitlines():
        if l.startswith('"[['):
            try:
                st = json.loads(json.loads(l))
            except Exception:
                continue
            k = json.dumps(st)
            if k not in seen:
                seen.add(k)
                out.append(st)
    if not out or "Error:" in r.out:
        raise vlib.Inconclusive("FailoverGen produced no schedules / failed:\n" + r.out[-2000:])
    run.transitions += r.generated
    return out, r


def fo_grow(st):
    """(ring growths, growths with a non-zero tail = wrapped entries, of those: followed by a switch replay or a sync)"""
    g = [i for i, x in enumerate(st) if x[0] == "GROW"]
    gt = [i for i in g if x_tail(st[i]) > 0]
    used = [i for i in gt if any(x[0] in ("DS", "SY", "CLW") for x in st[i + 1:])]
    return len(g), len(gt), len(used)


def x_tail(x):
    return int(x[1]) if len(x) > 1 else 0


def fo_interest(st):
    ops = [x[0] for x in st]
    g, gt, used = fo_grow(st)
    return (2 * ops.count("SY") + ops.count("FL") + ops.count("DS") + 2 * min(ops.count("W"), 6) + 2 * ("FAIL" in ops)
            + 3 * (ops.count("DS") >= 2 and "SY" in ops) + 5 * ("STOP" in ops) + 2 * min(g, 2) + 4 * min(gt, 1) + 4 * min(used, 1))


def fo_scaled_score(st):
    """schedules worth running with thousands of real records: the ring grows while wrapped and the wrapped entries are
    then replayed by a switch (after which something is synced) or popped"""
    sc = 0
    for i, x in enumerate(st):
        if x[0] == "GROW" and x_tail(x) > 0:
            rest = [y[0] for y in st[i + 1:]]
            sc = max(sc, 1 + 4 * ("DS" in rest) + 2 * ("DS" in rest and "SY" in rest[rest.index("DS"):]) + ("CRASH" in rest) + ("CLW" in rest))
    return sc


def run_c21(run):
    quick = run.tier == "quick"
    rng = random.Random(run.seed * 31 + 21)
    jobs = [(c, (lambda c=c, e=e: vlib.tlc_must_fail(FO, "Failover", c, expect=e, workers=2, timeout=900))) for c, e in FO_BUGS]
    cfgs = ["Failover.cfg"] if quick else ["Failover.cfg", "FailoverW3.cfg", "FailoverThorough.cfg"]
    for c in cfgs:
        jobs.append((c, (lambda c=c: vlib.tlc_must_pass(FO, "Failover", c, workers=max(2, W // 2), timeout=2400, heap="8g", coverage=(c == "Failover.cfg")))))
    # TLC-generated schedules (simulation of FailoverGen), run alongside the design checks
    allsets = [[2, 3, 5, 6], [1, 4, 6], [2, 6], [1, 2, 3, 4, 5, 6]]   # each lets the ring (QCap below) grow while wrapped within N = 6
    qcaps = [2, 4, 2, 3]        # ring capacity of the generating model, per sync set (quick: 2)
    gens = [(k, ss, 2 if quick else qcaps[k]) for k, ss in enumerate(allsets) if not quick or k == run.seed % len(allsets)]
    if quick:
        # a second simulation whose sync set leaves room for the ring to grow while wrapped; only such schedules are taken from it
        gens.append((9, [1, 4, 6], 2))
    for k, ss, qc in gens:
        jobs.append(("gen%d" % k, (lambda k=k, ss=ss, qc=qc: fo_schedules(run, 2500 if quick else 12000, run.seed * 10 + k, ss, qcap=qc))))
    t00 = _time.time()
    res = parallel_tlc(jobs, nproc=6 if quick else 4)
    _t("design configs, seeded bugs and schedule generation done", t00)
    for c, e in FO_BUGS:
        run.design["Failover/" + c] = dict(caught=res[c].violation, generated=res[c].generated, wall_s=round(res[c].wall, 1))
    for c in cfgs:
        run.add_design("Failover/" + c, res[c])
        nt = run.design["Failover/" + c].get("never_taken")
        if nt:
            raise vlib.Inconclusive("Failover/%s: actions never taken (vacuous): %s" % (c, nt))
    scheds = []
    gen_stats = []
    scaled = []
    for k, syncset, qcap in gens:
        sts, r = res["gen%d" % k]
        sts.sort(key=fo_interest, reverse=True)
        keep = sts[:170 if quick else 1500]
        rest = sts[len(keep):]
        rng.shuffle(rest)
        keep += rest[:50 if quick else 500]
        if k == 9:
            keep = []
        # schedules in which the model's ring grows while wrapped and the re-slotted entries are then replayed / popped
        wrapped = [st for st in sts if fo_grow(st)[2] and st not in keep]
        keep += wrapped[:30 if quick else 300]
        # mode: the ring of the real queue is QCap slots ("small"), or untouched with one real record per model record ("real")
        scheds += [(syncset, st, qcap, "small" if j % 2 == 0 or fo_grow(st)[1] else "real") for j, st in enumerate(keep)]
        # "scaled": the real 8192-slot ring, 8192/QCap real records per model record
        if 8192 % qcap == 0 and (not quick or k == 9):
            big = sorted([st for st in sts if fo_scaled_score(st) > 0], key=fo_scaled_score, reverse=True)
            top = big[:2 if quick else 20]
            more = big[len(top):]
            rng.shuffle(more)
            scaled += [(syncset, st, qcap, "scaled") for st in top + more[:1 if quick else 10]]
        gen_stats.append(dict(syncset=syncset, qcap=qcap, behaviours=len(sts), kept=len(keep), wall_s=round(r.wall, 1),
                              with_growth=sum(1 for st in sts if fo_grow(st)[0]), with_growth_while_wrapped=sum(1 for st in sts if fo_grow(st)[1])))
    scheds += scaled
    run.design["FailoverGen/simulate(N=6,W=4)"] = gen_stats
    if not scaled or not any(fo_grow(st)[2] for _, st, _, m in scheds if m == "small"):
        raise vlib.Inconclusive("FailoverGen: no generated schedule grows the ring while it is wrapped and then replays/pops it (vacuous)")
    cases = []
    for i, (syncset, st, qcap, mode) in enumerate(scheds):
        n = 6
        sizes = [rng.choice([20, 200, 3000, 5000, 9000, 33000, 40000]) if rng.random() < .6 else rng.randint(1, 12000) for _ in range(n)]
        logdata = [j for j in range(1, n + 1) if rng.random() < .08]
        cases.append(dict(id=i, n=n, sync=syncset, sizes=sizes, logdata=logdata, steps=st, crashpct=rng.choice([0, 0, 50, 50, 100]),
                          walsync=rng.random() < .5, src="tlc", qcap=qcap, mode=mode))
    binp = vlib.build_driver("wal", name="wal_wal" + SFX)
    tdir = vlib.scratch("verif.c21.")
    cf = os.path.join(tdir, "cases.jsonl")
    with open(cf, "w") as o:
        for c in cases:
            o.write(json.dumps(c) + "\n")
    t0 = _time.time()
    rc, out = vlib.run_driver(binp, "TestVWalFailover$", env=dict(VERIF_OUT=tdir, VERIF_CASEFILE=cf, VERIF_SEED=str(run.seed)), timeout=2400)
    if "DRIVER-DONE" not in out:
        raise vlib.Inconclusive("wal driver TestVWalFailover died:\n" + out[-3000:])
    _t("driver executed %d schedules" % len(cases), t0)
    runs = [r for _, r in split_runs(os.path.join(tdir, "failover.ndjson"))]
    m = re.search(r"C21-PROBLEMS (\d+)", out)
    problems = int(m.group(1)) if m else -1
    if problems > max(3, len(cases) // 20):
        raise vlib.Inconclusive("wal driver: %d of %d schedules could not be executed (stuck Close or setup error):\n%s"
                                % (problems, len(cases), "\n".join(l for l in out.splitlines() if "C21-PROBLEM " in l)[:1500]))
    good = [r for r in runs if any('"op":"fpanic"' in l for l in r)
            or (not any('"op":"fstuck"' in l for l in r) and any('"op":"fread"' in l for l in r))]
    for r in good:      # a panicking run ends at the panic event
        k = [i for i, l in enumerate(r) if '"op":"fpanic"' in l]
        if k:
            r[k[0] + 1:] = ['{"op":"reset"}']

    def describe(lines, off):
        w = [json.loads(l) for l in lines if '"op":"fwrote"' in l]
        rel = [json.loads(l)["seq"] for l in lines[:off] if '"op":"freleased"' in l and '"err":false' in l]
        grow = [l for l in lines if '"op":"fgrow"' in l]
        ws = lambda x: str(x["seq"]) if x["n"] == 1 else "%d..+%dx%d" % (x["seq"], x["count"], x["n"])
        rd = lines[off]
        if len(rd) > 400:
            rd = rd[:250] + " ... " + rd[-150:]
        return "%s; written seqs [%s] (count>0: [%s]), ring growths %s, released-ok before the read %s, event: %s" % (
            lines[0][:200], ", ".join(ws(x) for x in w)[:600], ", ".join(ws(x) for x in w if x["count"] > 0)[:600], grow[:4], rel[:40], rd)
    acc, events, rej = validate_runs(run, FO, "FailoverTrace", "FailoverTrace.cfg", good, {"fread", "fpanic", "fwaiters"}, "C21", keep_name="c21", describe=describe, heap="3g")
    _t("TLC validated", t0)
    run.traces += acc
    if rej == 0:
        demo = None
        for r in good:
            if '"block":1}' not in r[0]:
                continue
            evs = [json.loads(l) for l in r]
            rd = [i for i, e in enumerate(evs) if e["op"] == "fread"]
            if (rd and len(evs[rd[0]]["seqs"]) >= 3 and any(e["op"] == "freleased" and not e["err"] for e in evs[:rd[0]])
                    and any(e["op"] == "fwaiters" for e in evs)):
                demo = (r, evs, rd[0])
                break
        if demo is None:
            raise vlib.Inconclusive("binding demo: no run with >= 3 records read and a clean release")
        r, evs, ri = demo
        e1 = dict(evs[ri]); q = list(e1["seqs"]); q[1], q[2] = q[2], q[1]; e1["seqs"] = q
        e2 = dict(evs[ri]); e2["seqs"] = [e2["seqs"][0]] + list(e2["seqs"])
        wi = [i for i, e in enumerate(evs) if e["op"] == "fwrote" and e["count"] > 0 and e["seq"] == evs[ri]["seqs"][-1]][0]
        qi = [i for i, e in enumerate(evs) if e["op"] == "fwaiters"][0]
        mr = lambda lines, what, at=None: (lambda: must_reject(FO, "FailoverTrace", "FailoverTrace.cfg", lines, what, at=at))
        parallel_tlc([("a", mr(r[:ri] + [json.dumps(e1)] + r[ri + 1:], "a read with two records swapped", ri)),
                      ("b", mr(r[:ri] + [json.dumps(e2)] + r[ri + 1:], "a read with a duplicated record", ri)),
                      ("c", mr(r[:wi] + r[wi + 1:], "a run with the fwrote event of a returned record dropped")),
                      ("d", mr(r[:qi] + ['{"op":"fwaiters","pending":1}'] + r[qi + 1:], "a run with one sync waiter left parked after Close", qi))],
                     nproc=4)
        _t("binding demo done", t0)
        run.cov["binding_demo"] = ("an accepted real run was re-validated with (a) two read records swapped, (b) a record duplicated, (c) the "
                                   "write event of a returned record dropped, (d) one sync waiter still parked after Close: TLC rejected all four")
    # coverage
    dup_tail = crash = multi = 0
    readlens = {}
    nontriv = set()
    modes, grows, grows_wrapped, maxrecs = {}, {}, {}, 0
    for r in good:
        evs = [json.loads(l) for l in r]
        mode = evs[0].get("mode", "real")
        modes[mode] = modes.get(mode, 0) + 1
        gr = [e for e in evs if e["op"] == "fgrow"]
        if gr:
            grows[mode] = grows.get(mode, 0) + 1
        if any(e["tail"] % e["cap"] != 0 for e in gr):      # copy(new, old) would differ from re-slotting i%n -> i%m
            grows_wrapped[mode] = grows_wrapped.get(mode, 0) + 1
        maxrecs = max(maxrecs, sum(e["n"] for e in evs if e["op"] == "fwrote"))
        sw = sum(1 for e in evs if e["op"] == "fswitch")
        rds = [e for e in evs if e["op"] == "fread"]
        if not rds:
            continue
        rd = rds[0]
        if rd["crashed"]:
            crash += 1
        flat = [x for sg in rd.get("segs", []) for x in sg]
        if len(flat) != len(set(flat)):
            dup_tail += 1
        readlens[len(rd["seqs"])] = readlens.get(len(rd["seqs"]), 0) + 1
        if sw >= 2:
            multi += 1
        if sw >= 2 and len(rd["seqs"]) >= 1:
            nontriv.add(vlib.sha("\n".join(l for l in r if '"op":"f' in l)))
    run.cov["evaluations"] = len(good)
    run.cov["distinct_nontrivial"] = len(nontriv)
    run.cov["rule"] = ("one evaluation = one TLC-generated schedule (writes, switches, per-segment create/dirsync/write/sync releases and failures, "
                       "Close, crash point) forced on a real failoverWriter through the gating FS, followed by the real Scan + virtualWALReader, "
                       "and decided by FailoverTrace; non-trivial = at least two physical segments were started and at least one record was read; "
                       "distinct by trace hash")
    run.cov["crash_reads"] = crash
    run.cov["runs_with_a_record_in_two_segments"] = dup_tail
    run.cov["records_read_histogram"] = {str(k): v for k, v in sorted(readlens.items())}
    run.cov["multi_segment_runs"] = multi
    run.cov["schedules"] = len(cases)
    run.cov["runs_by_ring_mode"] = modes
    run.cov["runs_where_the_real_ring_grew"] = grows
    run.cov["runs_where_the_real_ring_grew_while_wrapped"] = grows_wrapped
    run.cov["most_records_in_one_run"] = maxrecs
    if not grows_wrapped.get("small") or not grows_wrapped.get("scaled"):
        raise vlib.Inconclusive("C21: the real recordQueue never grew while wrapped (small: %s, scaled: %s runs): ring growth not exercised"
                                % (grows_wrapped.get("small", 0), grows_wrapped.get("scaled", 0)))
    run.cov["driver_problems"] = problems
    for r in good[:2]:
        run.sample({"events": [json.loads(l) for l in r[:14]]})
    run.assumptions += [
        "Failover.tla abstracts each record.LogWriter to (queued, written, synced) prefixes; its own flush loop is C20's subject",
        "recordQueue ring: the model's capacity is QCap (1..4) and doubles; the real ring is exercised (a) with its buffer replaced by a "
        "QCap-slot one before the first push (in-package; the code only uses len(q.buffer)) and (b) untouched (initialBufferLen = 8192) "
        "with 8192/QCap tiny records per model record, so both fill, wrap and double where the model's ring does",
        "schedules are TLC behaviours of Failover.tla; a step whose file operation is not pending within 3 ms is skipped (the real goroutines may "
        "batch differently), so schedules are forced approximately and the verdict rests on the trace, not on step-by-step state equality",
        "crash = MemFS crash clone with 0/50/100 % of unsynced 4 KiB blocks and directory entries kept",
        "the DB-level failoverMonitor (timing-driven switching) is not exercised; switches come from the schedule",
    ]


# --------------------------------------------------------------------------
NOTE = ("Trusted: TLC, the TLA+ modules as the statement of intended behaviour, the Go drivers' recording of what the real "
        "code did (wrappers around io.Writer/Syncer, vfs.FS, in-package reads). Bounded by the stated constants and case classes.")
TECH = "TLA+ spec + TLC exhaustive design check with seeded-bug self-tests + conformance of the real Go code decided by a TLC trace spec"


def REGISTER(reg):
    reg("C21", "WAL failover replays each written batch exactly once, in order", run_c21,
        "Failover.tla (recordQueue as an explicit ring buffer with wrap-around and growth, asynchronous writer creation and switch with queue replay, per-segment flush/sync/failure, Close, MemFS crash, "
        "virtualWALReader dedup) is checked exhaustively by TLC with five seeded bugs; TLC-generated schedules are forced on a real failoverWriter "
        "over two crashable MemFS directories behind a gating/failing FS; the real Scan + reader read the logical log (live or from a crash clone) and "
        "TLC decides: exactly once, in order, nothing foreign, no holes, acknowledged-synced present, everything after a clean Close, "
        "no sync waiter left parked once Close returned.",
        NOTE, TECH, "DESIGN 6/C21", engine="wal")
    reg("C18", "Record log round trip and truncation", run_c18,
        "RecordLog.tla (Layout of the three wire formats, file mutilation, the Reader state machine incl. read-ahead) is checked exhaustively by "
        "TLC with scaled-down constants and three seeded bugs; with the real constants TLC enumerates boundary-class size vectors and cut points, "
        "the in-package driver writes them with the real Writer/LogWriter, cuts / zero-fills / overlays them on an older recycled log, reads with "
        "the real Reader, and TLC decides each case: exact clean prefix, clean end, nothing partial, merged or foreign.",
        NOTE, TECH, "DESIGN 6/C18", engine="wal")
    reg("C19", "WAL corruption inside synced data is reported", run_c19,
        "RecordLog!CorruptionReported is checked exhaustively by TLC (scaled-down constants, every damaged byte/chunk x sync pattern, two seeded "
        "bugs); real WAL-sync logs written by the real LogWriter with real sync points are damaged chunk by chunk and read by the real Reader; TLC "
        "decides: synced damage is reported as corruption, unsynced damage is an end of log, a damaged chunk is never returned. End to end: WALs "
        "written by a real DB (seeded Sync/NoSync commits) are damaged and reopened with the real Open; TLC decides ErrCorruption vs clean prefix.",
        NOTE, TECH, "DESIGN 6/C19", engine="wal")
    reg("C20", "Sync acknowledgement implies data synced", run_c20,
        "LogWriter.tla (producer, flushLoop, sync queue / highest-sync-index, min-sync-interval timer, Close, injected write/sync "
        "failures) is checked exhaustively by TLC with three seeded bugs; the real record.LogWriter runs over logging, gating and "
        "fault-injecting wrappers (io.Writer/Syncer, pendingSyncs, timer) under seeded and TLC-generated interleavings, and TLC "
        "validates every waiter release against the file's synced offset.", NOTE, TECH, "DESIGN 6/C20", engine="wal")


SPEC_MODULES = [("LogWriter", "LogWriter"), ("LogWriter", "LogWriterTrace"), ("LogWriter", "LogWriterSched"),
                ("RecordLog", "RecordLogCheck"), ("RecordLog", "RecordLogGen"), ("RecordLog", "RecordLogTrace"),
                ("RecordLog", "OpenCorruptionTrace"),
                ("Failover", "Failover"), ("Failover", "FailoverGen"), ("Failover", "FailoverTrace")]
