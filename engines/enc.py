"""ENC engine: encodings.
  C31  BatchEnc.tla (meaning of a batch = KV!ApplyBatch; abstract wire form, sequence-number assignment, expected
       internal iteration) bound to the real pebble.Batch / batchrepr / memtable / flushable batch / WAL replay.
  C35  KeyOrder.tla (the intended total order on structured keys of the default, testkeys and cockroachkvs comparers)
       bound to the real Compare/Equal/Split/suffix comparers/Separator/Successor/ImmediateSuccessor/AbbreviatedKey.
  design : TLC exhaustive on BatchEncGen / KeyOrderGen (+ Bug_*.cfg)
  mode A : TLC-generated inputs (exhaustive small scope + simulation) -> Go drivers run them on the real code
           -> NDJSON -> TLC trace specs decide every observation."""
import glob, json, os, random, shutil, threading, time
import vlib

BE = os.path.join(vlib.SPEC, "BatchEnc")
KO = os.path.join(vlib.SPEC, "KeyOrder")
WORKERS = int(os.environ.get("VERIF_WORKERS", "0")) or min(vlib.NCPU, 8)
SKIP_DESIGN = os.environ.get("VERIF_SKIP_DESIGN") == "1"   # development / mutation testing only
# a scratch worktree (VERIF_REPO) gets its own driver binaries
DRVSUFFIX = "" if vlib.REPO == "/repo" else "_" + vlib.sha(vlib.REPO)
_LOCK = threading.Lock()
ALLKINDS = ["set", "del", "sdel", "delsized", "merge", "delr", "rkset", "rkunset", "rkdel", "logdata"]


# ---------------------------------------------------------------------------------------------
# generic helpers
class Phase:
    def __init__(self, run, name):
        self.run, self.name = run, name

    def __enter__(self):
        self.t0 = time.time()

    def __exit__(self, *a):
        self.run.cov.setdefault("phase_wall_s", {})[self.name] = round(time.time() - self.t0, 1)


def cfg_text(consts, invariants=(), spec="Spec", extra=""):
    out = ["SPECIFICATION " + spec, "CONSTANTS"]
    for k, v in consts.items():
        if isinstance(v, bool):
            v = "TRUE" if v else "FALSE"
        elif isinstance(v, str):
            v = '"%s"' % v
        elif isinstance(v, (set, frozenset, list, tuple)):
            v = "{" + ", ".join(('"%s"' % x) if isinstance(x, str) else str(x) for x in sorted(v)) + "}"
        out.append("  %s = %s" % (k, v))
    for i in invariants:
        out.append("INVARIANT " + i)
    out.append("CHECK_DEADLOCK FALSE")
    if extra:
        out.append(extra)
    return ("\n".join(out) + "\n").encode()


def trace_cfg(consts):
    return cfg_text(consts, spec="TraceSpec", extra="CONSTRAINT HWM\nPOSTCONDITION TraceAccepted")


def run_bug_cfgs(run, specdir, module, expect, workers=2):
    """seeded-bug self tests in parallel threads; expect: {bug name: invariant that must be violated}"""
    if SKIP_DESIGN:
        return
    res, errs = {}, []

    def one(n, inv):
        try:
            r = vlib.tlc_must_fail(specdir, module, "Bug_%s.cfg" % n, expect=inv, workers=workers, timeout=900)
            res[n] = dict(violation=r.violation, generated=r.generated, wall_s=round(r.wall, 1))
        except vlib.Inconclusive as e:
            errs.append(str(e))
    ths = [threading.Thread(target=one, args=(n, inv)) for n, inv in expect.items()]
    for t in ths:
        t.start()
    for t in ths:
        t.join()
    if errs:
        raise vlib.Inconclusive(errs[0])
    run.cov.setdefault("seeded_bugs_caught", {}).update({"%s/%s" % (module, k): v for k, v in res.items()})


def parallel(*fns):
    """run callables in threads (each mostly waits for a TLC / go subprocess); returns their results, re-raises the first failure"""
    res, errs = [None] * len(fns), []

    def one(i):
        try:
            res[i] = fns[i]()
        except BaseException as e:       # noqa
            errs.append(e)
    ths = [threading.Thread(target=one, args=(i,)) for i in range(len(fns))]
    for t in ths:
        t.start()
    for t in ths:
        t.join()
    if errs:
        raise errs[0]
    return res


def printed_json(out, first='"{'):
    """JSON values printed by PrintT(ToJson(..)) (deduplicated, order kept)"""
    seen, res = set(), []
    for l in out.splitlines():
        if not l.startswith(first):
            continue
        try:
            s = json.loads(l)
            obj = json.loads(s)
        except Exception:
            continue
        if s in seen:
            continue
        seen.add(s)
        res.append(obj)
    return res


def run_go(binp, test, env, timeout=3000):
    rc, out = vlib.run_driver(binp, test, env=env, timeout=timeout)
    if "DRIVER-DONE" not in out:
        raise vlib.Inconclusive("driver %s died:\n%s" % (test, out[-3000:]))
    done = [l for l in out.splitlines() if l.startswith("DRIVER-DONE")][-1]
    info = {}
    for tok in done.split()[1:]:
        if "=" in tok:
            k, v = tok.split("=", 1)
            try:
                info[k] = int(v)
            except ValueError:
                info[k] = v
    return out, info


def case_of(path, line, opener='"op":"case"'):
    """the case event that opened the segment containing line (1-based)"""
    head = None
    with open(path) as f:
        for i, l in enumerate(f, 1):
            if i > line:
                break
            if opener in l:
                head = l
    try:
        return json.loads(head) if head else None
    except Exception:
        return None


def validate_files(run, specdir, module, cfgbytes, files, vocab, label, sig_fields, batch_lines=40000, heap="8g", opener='"op":"case"'):
    """validate trace files, many per TLC run; a rejection at an event of the property's vocabulary is a violation"""
    wd = vlib.scratch("verif.enct.")
    files = list(files)
    rejected = total = 0
    while files:
        batch, n = [], 0
        while files and (not batch or n < batch_lines):
            f = files.pop(0)
            batch.append(f)
            n += sum(1 for _ in open(f)) + 1
        while batch:
            allp = os.path.join(wd, "all.ndjson")
            vlib.concat_traces(batch, allp)
            v = vlib.validate_trace(specdir, module, "run.cfg", allp, timeout=3000, extra_files={"run.cfg": cfgbytes}, heap=heap)
            total += v.hwm
            if v.accepted:
                run.traces += len(batch)
                break
            if v.tlc.violation or ("Error:" in v.tlc.out and "TraceAccepted" not in v.tlc.out):
                raise vlib.Inconclusive("trace spec error during validation (%s):\n%s" % (label, v.tlc.out[-3000:]))
            c, hit = 0, None
            for i, f in enumerate(batch):
                k = sum(1 for _ in open(f)) + 1
                if c + k > v.hwm:
                    hit = (i, f, v.hwm - c + 1)
                    break
                c += k
            if hit is None:
                raise vlib.Inconclusive("cannot locate rejected line")
            i, f, line = hit
            run.traces += i
            ev = v.rejected_line
            if not isinstance(ev, dict) or ev.get("op") not in vocab:
                raise vlib.Inconclusive("trace %s rejected at line %d on an event outside the property's vocabulary: %s"
                                        % (f, line, str(ev)[:400]))
            keep = os.path.join(run.outdir, os.path.basename(f))
            shutil.copy(f, keep)
            seg = case_of(f, line, opener) or {}
            sig = {"kind": "trace-rejected", "label": label}
            for k in sig_fields:
                if k in ev:
                    sig[k] = ev[k]
            run.violation(sig, "%s: observation rejected by %s at line %d: %s   [case: %s]"
                          % (os.path.basename(f), module, line, json.dumps(ev)[:500], json.dumps(seg)[:500]),
                          replay_obj={"trace": keep, "line": line, "case": seg,
                                      "cmd": "VERIF_SEED=%d python3 /verif/vcheck run %s --tier %s" % (run.seed, run.prop, run.tier)})
            rejected += 1
            batch = batch[i + 1:]
            if rejected >= 6:
                return total, rejected
    return total, rejected


def binding_demo(run, specdir, module, cfgbytes, files, corrupt, droppable, what):
    """corrupt one logged field / drop one event of an accepted real trace: TLC must reject both"""
    wd = vlib.scratch("verif.encb.")
    rng = random.Random(run.seed)
    cands = list(files)
    rng.shuffle(cands)
    done_c = done_d = False
    for f in cands[:6]:
        lines = [l.strip() for l in open(f) if l.strip()][:1500]
        if not done_c:
            idx = [i for i, l in enumerate(lines) if corrupt(l) is not None]
            if idx:
                i = idx[len(idx) // 2]
                p = os.path.join(wd, "c.ndjson")
                open(p, "w").write("\n".join(lines[:i] + [corrupt(lines[i])] + lines[i + 1:]) + "\n")
                v = vlib.validate_trace(specdir, module, "run.cfg", p, extra_files={"run.cfg": cfgbytes})
                if v.accepted:
                    raise vlib.Inconclusive("binding demo: corrupted field at line %d of %s was ACCEPTED" % (i + 1, f))
                if v.hwm != i:
                    raise vlib.Inconclusive("binding demo: corrupted line %d but TLC stopped at line %d" % (i + 1, v.hwm + 1))
                done_c = True
        if not done_d:
            idx = [i for i, l in enumerate(lines) if droppable(l)]
            if idx:
                i = idx[len(idx) // 2]
                p = os.path.join(wd, "d.ndjson")
                open(p, "w").write("\n".join(lines[:i] + lines[i + 1:]) + "\n")
                v = vlib.validate_trace(specdir, module, "run.cfg", p, extra_files={"run.cfg": cfgbytes})
                if v.accepted:
                    raise vlib.Inconclusive("binding demo: trace with dropped line %d of %s was ACCEPTED" % (i + 1, f))
                done_d = True
        if done_c and done_d:
            break
    if not (done_c and done_d):
        raise vlib.Inconclusive("binding demo could not be completed (corrupt=%s drop=%s)" % (done_c, done_d))
    run.cov["binding_demo"] = what


# ---------------------------------------------------------------------------------------------
# C31
C31_BUGS = {"SetReprKeepsCount": "RoundTrip", "ApplyCountFromHeader": "RoundTrip", "ApplyRkMiscount": "RoundTrip",
            "FlushableIndexesLogData": ["SeqInRange", "SameAsMem"]}
C31_INVS = ["RoundTrip", "SeqInRange", "Meaning", "SameAsMem", "IterSane"]
SMALL = (2, 1)     # universe of the exhaustive scope: 2 prefixes x (bare + 1 suffix) = 4 user keys
BIG = (3, 2)       # universe of the simulated batches: 9 user keys


def c31_design(run):
    """exhaustive design check; the same run emits every batch of the scope as an input for the real code"""
    quick = run.tier == "quick"
    P, S = SMALL
    consts = dict(P=P, S=S, MaxOps=2, Kinds=ALLKINDS, Pres=["empty", "full"], Bug="none", Emit=True)
    if SKIP_DESIGN:
        consts["Kinds"] = ["set", "del", "merge", "delr", "rkset", "rkunset", "logdata"]
    with Phase(run, "design"):
        r = vlib.tlc_must_pass(BE, "BatchEncGen", "run.cfg", workers=WORKERS, timeout=2400, heap="8g",
                               extra_files={"run.cfg": cfg_text(consts, invariants=C31_INVS + ["EmitInv"])})
    with _LOCK:
        run.add_design("BatchEncGen exhaustive (P=%d,S=%d: %d user keys; batches of <= %d records of kinds %s; pre-states empty/full; "
                       "every transport, every split into Apply parts)" % (P, S, P * (S + 1), consts["MaxOps"], consts["Kinds"]), r)
    cases = printed_json(r.out)
    if not quick and not SKIP_DESIGN:
        # batches of 3 records over the point/range kinds that interact (thorough only)
        c3 = dict(consts, MaxOps=3, Kinds=["set", "del", "merge", "delr", "rkset", "rkunset", "logdata"], Pres=["full"])
        with Phase(run, "design3"):
            r3 = vlib.tlc_must_pass(BE, "BatchEncGen", "run.cfg", workers=WORKERS, timeout=3000, heap="12g",
                                    extra_files={"run.cfg": cfg_text(c3, invariants=C31_INVS + ["EmitInv"])})
        with _LOCK:
            run.add_design("BatchEncGen exhaustive (P=%d,S=%d; batches of <= 3 records of kinds %s; pre-state full)" % (P, S, c3["Kinds"]), r3)
        seen = set(json.dumps(c, sort_keys=True) for c in cases)
        c3cases = [c for c in printed_json(r3.out) if json.dumps(c, sort_keys=True) not in seen]
        run.cov["exhaustive_3_record_cases_generated"] = len(c3cases)
        if len(c3cases) > 6000:
            c3cases = random.Random(run.seed).sample(c3cases, 6000)   # all of them are model-checked; this many are replayed
        cases += c3cases
    return cases


def c31_simulate(run, walks, maxops):
    P, S = BIG
    consts = dict(P=P, S=S, MaxOps=maxops, Kinds=ALLKINDS, Pres=["empty", "full"], Bug="none", Emit=True)
    with Phase(run, "simulate"):
        r = vlib.tlc(BE, "BatchEncGen", "sim.cfg", workers=1, timeout=1500, simulate="num=%d" % walks, depth=4 * maxops + 8,
                     seed=run.seed, extra_files={"sim.cfg": cfg_text(consts, invariants=C31_INVS + ["EmitInv"])})
    if r.timed_out or r.violation or ("Error:" in r.out):
        raise vlib.Inconclusive("BatchEncGen simulation failed (%s)\n%s" % (r.violation, r.out[-2500:]))
    cases = printed_json(r.out)
    run.design["BatchEncGen/simulate (P=%d,S=%d, <= %d records)" % (P, S, maxops)] = dict(
        walks=walks, behaviours=len(cases), generated=r.generated, wall_s=round(r.wall, 1))
    with _LOCK:
        run.transitions += r.generated
    return cases


def c31_corrupt(l):
    if '"op":"dec"' in l:
        e = json.loads(l)
        e["count"] += 1
        return json.dumps(e)
    if '"op":"state"' in l:
        e = json.loads(l)
        e["state"]["pts"][0] = list(e["state"]["pts"][0]) + [424242]
        return json.dumps(e)
    if '"op":"fb"' in l:
        e = json.loads(l)
        if not e["fb"]["fwd"]:
            return None
        e["fb"]["fwd"][0][1] += 1
        return json.dumps(e)
    return None


def c31_stats(files):
    """evaluations = observations decided by TLC; distinct non-trivial = distinct cases with >= 2 records of >= 2 kinds"""
    evals, distinct = 0, set()
    for f in files:
        for l in open(f):
            if '"op":"case"' in l:
                e = json.loads(l)
                if len(e["ops"]) >= 2 and len(set(o["o"] for o in e["ops"])) >= 2:
                    distinct.add(vlib.sha(json.dumps([e["pre"], e["ops"]], sort_keys=True)))
            elif '"op":"dec"' in l or '"op":"state"' in l or '"op":"fb"' in l:
                evals += 1
    return evals, len(distinct)


# ---- C31, malformed input (BatchWire) ----
C31W_BUGS = {"WireBoundBeforeAdvance": ["NoPanic", "FastSlowAgree"], "WireFastPathOffByOne": ["NoPanic", "FastSlowAgree"]}
C31W_INVS = ["NoPanic", "ValidRoundTrip", "TruncPrefix", "FastSlowAgree"]
MAL_VOCAB = ("mal",)


def c31w_consts(quick):
    """the malformed-input scope: lengths around the one-byte varint limit (127/128), the fast-path limit of DecodeStr (128 bytes
    remaining) and with 2-, 3- (thorough: 4-) byte length prefixes; every single defect of BatchWireGen"""
    c = dict(WBug="none", RecKinds=[0, 1, 2, 3, 7, 15], KLens=[1, 127, 128, 16384], VLens=[0, 1, 127, 128, 300, 16384],
             PreKinds=[1], PreKLens=[1], PreVLens=[300], MaxRecs=2, MaxCut=7, Over=[1, 2, 3, 4, 5, 6], Under=[1, 2],
             Huge=[268435456, 2147483647], BadKinds=[4, 17, 25, 30, 31, 64, 255],
             Damage=["cut", "hdr", "len", "kind", "count", "pad"], Emit=True)
    if not quick:
        c.update(KLens=[1, 127, 128, 129, 300, 16384], VLens=[0, 1, 127, 128, 129, 300, 16383, 16384, 2097152],
                 PreKinds=[0, 1, 3], PreKLens=[1, 130], PreVLens=[1, 300], MaxCut=9)
    return c


def c31_mal_generate(run):
    """exhaustive design check of the wire model; the same run emits every damaged batch of the scope as an input for the real code"""
    quick = run.tier == "quick"
    consts = c31w_consts(quick)
    with Phase(run, "mal_design"):
        r = vlib.tlc_must_pass(BE, "BatchWireGen", "run.cfg", workers=WORKERS, timeout=2400, heap="6g",
                               extra_files={"run.cfg": cfg_text(consts, invariants=([] if SKIP_DESIGN else C31W_INVS) + ["EmitInv"])})
    with _LOCK:
        run.add_design("BatchWireGen exhaustive (batches of <= %d records; last record: kinds %s x key lengths %s x value lengths %s; one defect of %s: "
                       "tail cut by 1..%d bytes, header cut, declared length +%s/-%s/huge, kind byte in %s, count +-1, padded length prefix)"
                       % (consts["MaxRecs"], consts["RecKinds"], consts["KLens"], consts["VLens"], consts["Damage"], consts["MaxCut"],
                          consts["Over"], consts["Under"], consts["BadKinds"]), r)
    return printed_json(r.out)


def c31_mal_corrupt(l):
    if '"op":"mal"' in l and '"res":"err"' in l:
        e = json.loads(l)
        if e["via"] in ("reader", "breader", "setrepr_db"):
            e["res"] = "ok"
            return json.dumps(e)
    return None


def c31_mal_drive(run, binp, cases):
    """drive the damaged batches through every transport of the real code; BatchWireTrace decides every answer"""
    quick = run.tier == "quick"
    d = os.path.join(vlib.scratch("verif.enc31m."), "mal")
    os.makedirs(d)
    cf = os.path.join(d, "malcases.jsonl")
    with open(cf, "w") as o:
        for c in cases:
            o.write(json.dumps(c) + "\n")
    env = dict(VERIF_OUT=d, VERIF_MALCASES=cf, VERIF_SEED=str(run.seed), VERIF_REPLAY_EVERY="3" if quick else "1")
    with Phase(run, "mal_drive"):
        _, info = run_go(binp, "TestC31Mal$", env)
    run.cov["driver_malformed"] = info
    files = sorted(glob.glob(os.path.join(d, "c31mal-*.ndjson")))
    if not files or info.get("replayed", 0) == 0 or info.get("err", 0) == 0:
        raise vlib.Inconclusive("malformed-input driver produced nothing to judge: %s" % info)
    tc = trace_cfg(dict(WBug="none"))
    with Phase(run, "mal_validate"):
        ev, rej = validate_files(run, BE, "BatchWireTrace", tc, files, MAL_VOCAB, "C31/malformed", sig_fields=("op", "via", "res"),
                                 batch_lines=30000, opener='"op":"mcase"')
    run.cov["trace_events_malformed"] = ev
    return files, rej, tc


def run_c31(run):
    quick = run.tier == "quick"
    for m in ("BatchEncGen", "BatchEncTrace", "BatchWireGen", "BatchWireTrace"):
        vlib.sany(BE, m)
    def bugs():
        with Phase(run, "seeded_bugs"):
            run_bug_cfgs(run, BE, "BatchEncGen", C31_BUGS)
            run_bug_cfgs(run, BE, "BatchWireGen", C31W_BUGS)

    def build():
        with Phase(run, "build"):
            return (vlib.build_driver("internal/verif/encdrv", name="internal_verif_encdrv" + DRVSUFFIX),
                    vlib.build_driver(".", name="root_enc" + DRVSUFFIX, timeout=2400))
    # the design run, the seeded-bug runs, the simulation and the go builds are independent subprocesses
    small_cases, big_cases, mal_cases, _, (binp, rootp) = parallel(
        lambda: c31_design(run),
        lambda: c31_simulate(run, walks=(250 if quick else 2500), maxops=(8 if quick else 12)),
        lambda: c31_mal_generate(run),
        bugs, build)
    rng = random.Random(run.seed)
    if not small_cases or not big_cases or not mal_cases:
        raise vlib.Inconclusive("the generator produced no cases (small=%d, simulated=%d, malformed=%d)" % (len(small_cases), len(big_cases), len(mal_cases)))
    run.cov["malformed_cases_generated"] = len(mal_cases)
    # the malformed-input cases are driven and judged in their own thread, beside the round-trip cases
    mal_res, mal_err = [], []

    def mal_thread():
        try:
            mal_res.append(c31_mal_drive(run, binp, mal_cases))
        except BaseException as e:       # noqa
            mal_err.append(e)
    mth = threading.Thread(target=mal_thread)
    mth.start()
    # quick: every exhaustive case goes through every batch-level transport and one DB-level group (rotating);
    # the simulated ones through everything.  thorough: everything through everything.
    cap_big = 250 if quick else 3000
    if len(big_cases) > cap_big:
        big_cases = rng.sample(big_cases, cap_big)
    run.cov["exhaustive_cases_generated"] = len(small_cases)
    if quick and len(small_cases) > 1200:
        small_cases = rng.sample(small_cases, 1200)     # the thorough tier replays every one
    tdir = vlib.scratch("verif.enc31.")
    sets, dead = [], []
    for name, (P, S), cases, rotate in (("small", SMALL, small_cases, quick), ("big", BIG, big_cases, False)):
        d = os.path.join(tdir, name)
        os.makedirs(d)
        cf = os.path.join(d, "cases.jsonl")
        with open(cf, "w") as o:
            for c in cases:
                o.write(json.dumps(dict(c, all=(len(c["ops"]) >= 2 and rng.random() < 0.05))) + "\n")
        env = dict(VERIF_OUT=d, VERIF_CASES=cf, VERIF_P=str(P), VERIF_S=str(S), VERIF_SEED=str(run.seed),
                   VERIF_ROTATE="1" if rotate else "0")
        with Phase(run, "drive_" + name):
            try:
                _, info = run_go(binp, "TestC31$", env)
            except vlib.Inconclusive as e:
                # the DB-level driver died (e.g. a panic in a background flush goroutine of the real DB): no verdict from it.
                # The in-package flushable-batch observations are still produced and judged; if they are all accepted
                # the run ends inconclusive with this message.
                dead.append(str(e))
                info = {"died": 1}
            _, info2 = run_go(rootp, "TestVEncFlushable$", env, timeout=3000)
        run.cov["driver_" + name] = dict(info, **{"fb_" + k: v for k, v in info2.items()})
        if not dead and info.get("large", 0) == 0:
            raise vlib.Inconclusive("no batch took the large-batch (flushable batch) path: the run would be vacuous for that clause")
        files = sorted(glob.glob(os.path.join(d, "c31fb-*.ndjson" if "died" in info else "*.ndjson")))
        if not files:
            raise vlib.Inconclusive("no traces produced")
        sets.append((name, P, S, files))
    rejected = 0
    allfiles = []
    with Phase(run, "validate"):
        for name, P, S, files in sets:
            ev, rej = validate_files(run, BE, "BatchEncTrace", trace_cfg(dict(P=P, S=S)), files, ("dec", "state", "fb"),
                                     "C31/" + name, sig_fields=("op", "via", "path"))
            rejected += rej
            run.cov["trace_events_" + name] = ev
            allfiles += files
    mth.join()
    if mal_err and not (rejected or run.violations):
        raise mal_err[0]
    mal_files, mal_rej, mal_tc = mal_res[0] if mal_res else ([], 0, None)
    rejected += mal_rej
    if dead and rejected == 0:
        raise vlib.Inconclusive(dead[0])
    if rejected == 0:
        with Phase(run, "binding_demo"):
            name, P, S, files = sets[1]
            binding_demo(run, BE, "BatchEncTrace", trace_cfg(dict(P=P, S=S)), files, c31_corrupt,
                         lambda l: '"op":"case"' in l,
                         "one corrupted observation (count / state / flushable entry) and one dropped case event of accepted real "
                         "traces were both rejected by TLC")
            what = run.cov["binding_demo"]
            binding_demo(run, BE, "BatchWireTrace", mal_tc, mal_files, c31_mal_corrupt, lambda l: '"op":"mal"' in l,
                         what + "; malformed input: one answer 'err' turned into 'ok' and one dropped answer were both rejected by TLC")
    evals, distinct = c31_stats(allfiles)
    mal_evals = mal_distinct = 0
    for f in mal_files:
        for l in open(f):
            if '"op":"mal"' in l:
                mal_evals += 1
            elif '"op":"mcase"' in l and '"mut":"none"' not in l:
                mal_distinct += 1
    evals += mal_evals
    distinct += mal_distinct
    run.cov["malformed_answers_decided"] = mal_evals
    run.cov["evaluations"] = evals
    run.cov["distinct_nontrivial"] = distinct
    run.cov["rule"] = ("evaluations = observations of the real code decided by BatchEncTrace: decoded op list + Count() + header count after each "
                       "batch-level transport (Reader, Repr->SetRepr fresh/reused, Apply whole/parts/onto API-built/onto SetRepr'd, DB batch, indexed "
                       "batch), visible state after each DB-level transport (commit, flush, crash clone + WAL replay read-only and read-write, "
                       "tiny-memtable large-batch path, SetRepr->DB.Apply, Apply->Commit, indexed batch reads and commit), and flushable-batch vs "
                       "memtable internal iteration (commit path and replay path). A case is non-trivial when it has >= 2 records of >= 2 kinds; "
                       "distinct by (pre-state, ops). Malformed input: + the answers (ok / err / panic, records read) of batchrepr.Reader, "
                       "Batch.SetRepr + Reader, DB-batch SetRepr, Batch.Apply into a DB batch and an indexed batch, DB.Apply, and Open over a WAL "
                       "holding the bytes (normal and large-batch path; quick: every third case), decided by BatchWireTrace; every damaged byte "
                       "string (TLC-enumerated, all distinct) counts as one non-trivial case.")
    for name, P, S, files in sets:
        ls = [json.loads(l) for l in list(open(files[0]))[:3]]
        run.sample({"set": name, "trace": os.path.basename(files[0]), "first_events": ls})
    run.assumptions += [
        "key universe: ranks of KV.tla mapped to testkeys-style keys (prefix letter, @suffix); values are ids; SingleDelete is generated "
        "only inside its contract; range-key bounds are prefix keys",
        "malformed input: byte strings are valid batches (keys 'a'.., values 'b'.., kinds Delete/Set/Merge/LogData/SingleDelete/DeleteRange) with "
        "ONE defect (tail cut, header cut, a declared length off by a few bytes or huge, a kind byte that is no batch kind, count +-1, a "
        "non-minimal length prefix); not arbitrary byte soup. A non-minimal or overflowing length prefix may be accepted or rejected (the fast "
        "and the general path of DecodeStr differ), but never panic; a count that disagrees with well-formed records may be reported or not by "
        "WAL replay (memTable.apply reports it, newFlushableBatch only an excess)",
        "NOT generated (outside the judged domain): ingest-family kinds (IngestSST, Excise, IngestSSTWithBlobs), for which Batch.Apply, "
        "memTable.apply and replayIngestedFlushable panic through explicit assertions; DB.Apply of well-formed records with a wrong header "
        "count (the commit pipeline deliberately panics on an apply error); semantically invalid payloads (range-key values, start >= end)",
        "TLC's verdict on each observation is authoritative; the Go drivers only execute and record",
    ]


# ---------------------------------------------------------------------------------------------
# C35
C35_BUGS = {"BareLast": "LawSplit1", "SyntheticOneSide": "LawAntisym", "ZeroLogicalDistinct": "LawEqual", "SuffixBeforePrefix": "LawSplit2"}
C35_LAWS = ["LawAntisym", "LawEqual", "LawSplit1", "LawSplit2", "LawSplit3", "LawTrans", "LawImmSucc"]
FAMS = ["bytes", "testkeys", "crdb"]


def c35_consts(**kw):
    c = dict(Bug="none", Fams=FAMS, Alphabet=[0, 97, 255], MaxPLen=1, W=2, L=1, TripleFams=[], SamePfxFams=["testkeys", "crdb"], Emit=True)
    c.update(kw)
    return c


def c35_generate(run):
    """exhaustive: the laws on the intended order + every pair (and the small families' triples) as inputs;
    simulation: sampled cockroach triples"""
    quick = run.tier == "quick"
    scopes = [("pairs+triples A={0x00,'a',0xff} |p|<=1 (bytes: <=2) W=2 L=1",
               c35_consts(TripleFams=(["bytes", "testkeys"] if quick else FAMS)))]
    if not quick:
        scopes.append(("pairs, longer prefixes |p|<=2 (bytes: <=3)", c35_consts(MaxPLen=2)))
        scopes.append(("pairs, more timestamps W=3 L=2, alphabet {0x00,0x01,'a',0xfe,0xff}",
                       c35_consts(W=3, L=2, Alphabet=[0, 1, 97, 254, 255], Fams=["testkeys", "crdb"])))
    def exh(name, consts):
        with Phase(run, "design:" + name.split(",")[0]):
            r = vlib.tlc_must_pass(KO, "KeyOrderGen", "run.cfg", workers=WORKERS, timeout=3000, heap="10g",
                                   extra_files={"run.cfg": cfg_text(consts, invariants=([] if SKIP_DESIGN else C35_LAWS) + ["EmitInv"])})
        with _LOCK:
            run.add_design("KeyOrderGen exhaustive: " + name, r)
        return printed_json(r.out)

    def bugs():
        with Phase(run, "seeded_bugs"):
            run_bug_cfgs(run, KO, "KeyOrderGen", C35_BUGS)
        return []

    def sim():
        if not quick:
            return []
        consts = c35_consts(Fams=["crdb"], TripleFams=["crdb"])
        with Phase(run, "simulate"):
            r = vlib.tlc(KO, "KeyOrderGen", "sim.cfg", workers=1, timeout=1500, simulate="num=60", depth=3, seed=run.seed,
                         extra_files={"sim.cfg": cfg_text(consts, invariants=["EmitInv"])})
        if r.timed_out or r.violation or ("Error:" in r.out):
            raise vlib.Inconclusive("KeyOrderGen simulation failed (%s)\n%s" % (r.violation, r.out[-2500:]))
        tr = [c for c in printed_json(r.out) if c["c"]["v"]["t"] != "unset"]
        with _LOCK:
            run.design["KeyOrderGen/simulate (cockroach triples)"] = dict(walks=60, behaviours=len(tr), generated=r.generated, wall_s=round(r.wall, 1))
            run.transitions += r.generated
        return tr

    def build():
        with Phase(run, "build"):
            return vlib.build_driver("internal/verif/encdrv", name="internal_verif_encdrv" + DRVSUFFIX)
    if SKIP_DESIGN:
        scopes = scopes[:1]
    res = parallel(*([(lambda n=n, c=c: exh(n, c)) for n, c in scopes] + [sim, lambda: c35_tables(run), bugs, build]))
    run.tables = res[-3]
    del res[-3]
    cases, seen = [], set()
    for lst in res[:-2]:
        for c in lst:
            k = json.dumps(c, sort_keys=True)
            if k not in seen:
                seen.add(k)
                cases.append(c)
    run.binp = res[-1]
    return cases


def c35_tables(run):
    """cockroach columnar key schema: design check of the seek model (exhaustive, tiny) + TLC-simulated tables"""
    quick = run.tier == "quick"

    def exh():
        if SKIP_DESIGN:
            return
        r = vlib.tlc_must_pass(KO, "KeyOrderTab", "KeyOrderTab.cfg", workers=2, timeout=900)
        with _LOCK:
            run.add_design("KeyOrderTab exhaustive (tables of <= 3 keys over 2 byte values, W=1, L=1): seek model sanity", r)

    def sim(consts, walks, label):
        r = vlib.tlc(KO, "KeyOrderTab", "sim.cfg", workers=1, timeout=1500, simulate="num=%d" % walks, depth=consts["MaxKeys"] + 4,
                     seed=run.seed, extra_files={"sim.cfg": cfg_text(consts, invariants=["EmitInv"])})
        if r.timed_out or r.violation or ("Error:" in r.out):
            raise vlib.Inconclusive("KeyOrderTab simulation failed (%s)\n%s" % (r.violation, r.out[-2500:]))
        tabs = printed_json(r.out)
        with _LOCK:
            run.design["KeyOrderTab/simulate " + label] = dict(walks=walks, tables=len(tabs), generated=r.generated, wall_s=round(r.wall, 1))
            run.transitions += r.generated
        return tabs
    jobs = [exh, lambda: sim(dict(Bug="none", Alphabet=[0, 97, 255], MaxPLen=1, W=2, L=1, MaxKeys=10, Emit=True),
                             40 if quick else 200, "(3 byte values, W=2, L=1, 10 keys)")]
    if not quick:
        jobs.append(lambda: sim(dict(Bug="none", Alphabet=[0, 97, 255], MaxPLen=2, W=3, L=2, MaxKeys=16, Emit=True), 20,
                                "(prefixes <= 2 bytes, W=3, L=2, 16 keys)"))
    with Phase(run, "tables"):
        res = parallel(*jobs)
    tabs = []
    for t in res[1:]:
        tabs += t
    return tabs


def c35_corrupt(l):
    if '"op":"pair"' in l:
        e = json.loads(l)
        if e["a"] == e["b"]:
            return None
        e["cmp"], e["cmpba"] = e["cmpba"], e["cmp"]
        return json.dumps(e)
    return None


def c35_stats(files):
    evals, distinct = 0, set()
    for f in files:
        for l in open(f):
            if '"op":"reset"' in l:
                continue
            evals += 1
            if '"op":"pair"' in l:
                e = json.loads(l)
                pa, pb = e["a"]["p"], e["b"]["p"]
                n = min(len(pa), len(pb))
                if e["a"] != e["b"] and pa[:n] == pb[:n]:
                    distinct.add(vlib.sha(json.dumps([e["fam"], e["a"], e["b"]], sort_keys=True)))
    return evals, len(distinct)


def run_c35(run):
    quick = run.tier == "quick"
    for m in ("KeyOrderGen", "KeyOrderTrace"):
        vlib.sany(KO, m)
    cases = c35_generate(run)
    npairs = sum(1 for c in cases if c["c"]["v"]["t"] == "unset")
    if npairs == 0 or npairs == len(cases):
        raise vlib.Inconclusive("the generator produced %d pairs and %d triples" % (npairs, len(cases) - npairs))
    binp = run.binp
    tdir = vlib.scratch("verif.enc35.")
    cf = os.path.join(tdir, "cases.jsonl")
    # pairs first (grouped by family), then triples
    cases.sort(key=lambda c: (c["c"]["v"]["t"] != "unset", c["fam"]))
    with open(cf, "w") as o:
        for c in cases:
            o.write(json.dumps(c) + "\n")
    tf = os.path.join(tdir, "tables.jsonl")
    with open(tf, "w") as o:
        for t in run.tables:
            o.write(json.dumps(t) + "\n")
    env = dict(VERIF_OUT=tdir, VERIF_CASES=cf, VERIF_TABLES=tf, VERIF_SEED=str(run.seed))
    with Phase(run, "drive"):
        _, info = run_go(binp, "TestC35$", env)
        _, info2 = run_go(binp, "TestC35Seek$", env)
    run.cov["driver"] = info
    run.cov["driver_seek"] = info2
    if not run.tables or info2.get("seeks", 0) == 0:
        raise vlib.Inconclusive("no columnar table was generated / sought (tables=%d)" % len(run.tables))
    run.cov["go_side_prediction_mismatches (diagnostic only)"] = info.get("gomismatch", 0)
    files = sorted(glob.glob(os.path.join(tdir, "*.ndjson")))
    if not files:
        raise vlib.Inconclusive("no traces produced")
    tc = trace_cfg(dict(Bug="none"))
    with Phase(run, "validate"):
        ev, rejected = validate_files(run, KO, "KeyOrderTrace", tc, files, ("pair", "triple", "sep", "succ", "isucc", "table", "scan", "seek"), "C35",
                                      sig_fields=("op", "fam"), batch_lines=60000)
    run.cov["trace_events"] = ev
    if rejected == 0:
        with Phase(run, "binding_demo"):
            binding_demo(run, KO, "KeyOrderTrace", tc, files, c35_corrupt, lambda l: '"op":"pair"' in l or '"op":"sep"' in l,
                         "one pair with swapped Compare results and one dropped observation (events are numbered) of accepted real traces "
                         "were both rejected by TLC")
    evals, distinct = c35_stats(files)
    run.cov["evaluations"] = evals
    run.cov["distinct_nontrivial"] = distinct
    run.cov["rule"] = ("evaluations = events decided by KeyOrderTrace (pair: Compare both ways, Equal, Split x2, ComparePointSuffixes, CompareRangeSuffixes "
                       "both ways, AbbreviatedKey order; triple: three Compare results; sep/succ/isucc: the Separator/Successor/ImmediateSuccessor "
                       "laws). Non-trivial = pairs of different keys whose prefixes are equal or one a proper prefix of the other (where suffix order, "
                       "sentinel and length variants decide); distinct by (family, a, b). "
                       "table/scan/seek: columnar sstables written with cockroachkvs.KeySchema, full scan and SeekGE/SeekLT of every universe key.")
    for f in files[:1]:
        ls = [json.loads(l) for l in list(open(f))[:400:80]]
        for e in ls:
            run.sample(e)
    run.assumptions += [
        "the intended order is stated on structured keys (prefix bytes, version); the driver's encoders/decoders between structure and bytes are trusted "
        "(cockroachkvs.EncodeKey / DecodeEngineKey / EncodeMVCCKey and testkeys.Suffix are the package's own)",
        "MVCC versus lock-table versions under one roachpb key is not a documented case and is not generated",
        "Separator/Successor/ImmediateSuccessor/AbbreviatedKey are checked as laws on outputs that decode to valid keys (undecodable outputs are counted, not judged)",
        "cockroach columnar key schema: tables hold non-empty roachpb keys and no explicit zero timestamp (as the repository's own generator and "
        "encoders); materialised keys are compared up to the comparer's equivalences (the schema does not store the synthetic byte / zero-logical variant)",
        "observed while building this check, outside the property's key domain and not judged: a columnar data block whose keys all have the EMPTY roachpb "
        "key makes the writer panic ('unreachable' in colblk.PrefixBytesBuilder.Finish via cockroachKeyWriter.Finish); an explicit all-zero MVCC version "
        "is materialised as 'no version'",
        "pure-function laws over an enumerated universe: this is exploration, not a proof over all keys",
    ]


# ---------------------------------------------------------------------------------------------
C31_NOTE = ("Claimed in part. Covered: round trip of kinds/keys/values/count through Reader, Repr/SetRepr, Batch.Apply, commit, WAL replay, the "
            "large-batch path, and flushable batch == memtable == the spec's internal iteration; 'decoding arbitrary bytes returns an error "
            "instead of panicking' for valid batches with one defect (BatchWire.tla: cut tails, damaged lengths / kinds / count, strings up to "
            "16 KiB, thorough 2 MiB, i.e. 1- to 4-byte length prefixes) through Reader, SetRepr, Batch.Apply, DB.Apply and WAL replay - not for "
            "arbitrary byte soup, ingest-family kinds or semantically invalid payloads. Trusted: TLC, KV.tla's "
            "ApplyBatch as the meaning of a batch, the drivers' key/value encoding and recording. Bounded: 4-key universe exhaustively for "
            "batches of <= 2 (thorough: <= 3) records, 9-key universe by simulation for batches of <= 8 (thorough: <= 12) records.")
C31_TECH = "TLA+ model (BatchEnc.tla over KV.tla) + TLC-generated batches run on the real Batch/DB code + TLC trace validation of every observation"


C35_NOTE = ("Claimed in part, as exploration: pure-function laws over enumerated small universes (3-5 byte values, prefixes of <= 1-2 bytes, a "
            "handful of timestamps in every encoded length variant, 4 lock-table versions); nothing is proved for all keys. The cockroach columnar key "
            "schema is exercised through TLC-simulated tables (10-16 keys, every universe key sought) only. Trusted: TLC, KeyOrder.tla as the statement of the intended order, the "
            "driver's structure<->bytes mapping.")
C35_TECH = "TLA+ statement of the intended key order + TLC-enumerated pairs/triples run through the real comparers + TLC trace validation of every result"


def REGISTER(reg):
    reg("C31", "Batch encoding round-trips through every transport",
        run_c31,
        "TLC generates batches (all op kinds; exhaustive small scope + simulation). Each is built on the real pebble.Batch and shipped through "
        "Reader, Repr->SetRepr, Batch.Apply (whole, in parts, into plain/DB/indexed batches), commit, crash clone + WAL replay, the "
        "large-batch/flushable path (DB-level with a tiny memtable; in-package newFlushableBatch vs a memtable, commit and replay paths). "
        "TLC (BatchEncTrace) decides every observation: decoded ops = generated ops, Count and header count, visible state = "
        "ApplyBatch(state, ops), flushable iteration = memtable iteration = the spec's internal order. The design model's invariants "
        "(round trip, seqnums inside the allocated range, meaning, flushable = memtable) are checked exhaustively with 4 seeded bugs. "
        "Malformed input: BatchWire.tla states the wire format and a decoder in the steps of Reader.Next/DecodeStr (fast and general path); TLC "
        "checks on every batch of the scope with one defect that the decoder never reads outside the bytes, that cut batches decode to a prefix, "
        "that the fast path agrees with the general one (2 seeded decoder bugs are caught), and emits the byte strings; the driver hands each to "
        "batchrepr.Reader, Batch.SetRepr, Batch.Apply, DB.Apply and Open (WAL replay) inside recover(); BatchWireTrace decides every answer: never "
        "a panic, an error exactly when the bytes are malformed for that transport, and exactly the records before the defect.",
        C31_NOTE, C31_TECH, "DESIGN 6/C31", engine="enc")


    reg("C35", "Shipped comparers order structured keys as intended and obey the Comparer contract",
        run_c35,
        "KeyOrder.tla states the intended total order of the default, testkeys and cockroachkvs comparers on structured keys (prefix bytes; bare key "
        "first; testkeys suffixes and MVCC (wall, logical) descending; synthetic-bit and zero-logical length variants equivalent; lock-table versions "
        "descending). TLC checks the Comparer-contract laws on that order exhaustively over small universes (4 seeded wrong orders are caught) and "
        "emits every pair and sampled/all same-prefix triples; the driver encodes them with the real encoders and calls the real Compare/Equal/Split/"
        "ComparePointSuffixes/CompareRangeSuffixes/AbbreviatedKey/Separator/Successor/ImmediateSuccessor; KeyOrderTrace decides each result against "
        "the intended order, plus antisymmetry/transitivity of the real Compare and the Separator/Successor/ImmediateSuccessor/AbbreviatedKey laws. "
        "TLC-simulated sorted tables are written as columnar sstables with cockroachkvs.KeySchema; full scans and SeekGE/SeekLT of every universe key "
        "through the real columnar iterator (cockroachKeySeeker) are decided against the same order.",
        C35_NOTE, C35_TECH, "DESIGN 6/C35", level="exploration", engine="enc")


SPEC_MODULES = [("BatchEnc", "BatchEncGen"), ("BatchEnc", "BatchEncTrace"), ("BatchEnc", "BatchWireGen"), ("BatchEnc", "BatchWireTrace"), ("KeyOrder", "KeyOrderGen"), ("KeyOrder", "KeyOrderTrace"), ("KeyOrder", "KeyOrderTab")]
