"""KV engine: the logical model KV.tla bound to the real DB.
  design   : TLC exhaustive on KVGen/KVSanity.cfg (model invariants)
  mode B   : Go random workloads (dbdrv TestDrive) -> traces -> TLC KVTrace
  mode A   : TLC-generated behaviours (KVGen simulate) -> dbdrv TestScript -> traces -> TLC KVTrace
Serves C01-C05, C08, C09, C14, C36, C37 (and, through other entry points, C47)."""
import glob, json, os, random, shutil
import vlib

SPECDIR = os.path.join(vlib.SPEC, "KV")
P, S = 3, 3

ALLCFG = ["default", "flushy", "flushy2", "manual", "bigvals", "valsep", "valsep1", "valsepman", "oldfmv", "nowal", "nolazy"]

PROPS = {
    # profile, checked classes, generator classes, iterator class for generated scripts
    "C01": dict(profile="C01", checked=["latest"], gen=["pt", "rk", "mt", "ig"], itercls="pos",
                exh=dict(quick=[(["pt", "rk", "ig", "mt"], 3, (1, 1), 2)],
                         thorough=[(["pt", "rk", "ig", "mt"], 3, (1, 1), 3), (["pt", "mt"], 4, (1, 1), 2), (["pt", "mt"], 3, (1, 2), 2)]),
                quick_cfgs=["default", "flushy", "manual", "bigvals", "oldfmv", "nolazy", "ext"]),
    # 2 prefixes x (bare + 5 suffixes): long version chains per prefix, so that a prefix straddles table boundaries
    "C02": dict(profile="C02", checked=["pos"], gen=["pt", "rk", "it", "it", "mt"], itercls="pos", masks=True, univ=(2, 5),
                quick_cfgs=["default", "flushy", "manual", "nolazy", "valsep", "bigvals"]),
    "C03": dict(profile="C03", checked=["snap"], gen=["pt", "rk", "mt", "sn", "ig"], itercls="snap",
                exh=dict(quick=[(["pt", "mt", "sn", "ig"], 3, (1, 1), 2)],
                         thorough=[(["pt", "mt", "sn", "ig"], 3, (1, 1), 3), (["pt", "mt", "sn"], 4, (1, 1), 2)]),
                quick_cfgs=["default", "flushy", "flushy2", "manual", "valsep", "oldfmv"]),
    "C04": dict(profile="C04", checked=["view"], gen=["pt", "rk", "mt", "it", "ig"], itercls="view",
                quick_cfgs=["default", "flushy", "flushy2", "manual", "nolazy"]),
    "C05": dict(profile="C05", checked=["batch", "batchleak", "view"], gen=None,
                quick_cfgs=["default", "flushy", "manual", "bigvals"]),
    "C08": dict(profile="C08", checked=["rk"], gen=["rk", "rk", "pt", "it", "mt"], itercls="rk",
                quick_cfgs=["default", "flushy", "flushy2", "manual", "nolazy", "oldfmv"]),
    "C09": dict(profile="C09", checked=["mask"], gen=["rk", "pt", "it", "it", "mt"], itercls="mask", masks=True,
                quick_cfgs=["default", "flushy", "flushy2", "manual", "nolazy", "ext", "extman"]),
    "C14": dict(profile="C14", checked=["latest", "snap", "view", "efos"], gen=["pt", "rk", "mt", "mt", "sn", "it"], itercls="view",
                exh=dict(quick=[(["pt", "mt", "sn", "ig"], 3, (1, 1), 2)],
                         thorough=[(["pt", "rk", "mt", "sn"], 3, (1, 1), 3), (["pt", "mt", "sn", "ig"], 3, (1, 1), 3), (["pt", "rk", "mt"], 4, (1, 1), 1)]),
                quick_cfgs=["flushy", "flushy2", "manual", "valsep", "bigvals", "oldfmv"]),
    "C36": dict(profile="C36", checked=["latest", "view"], gen=["ig", "ig", "pt", "rk", "it", "mt"], itercls="view",
                quick_cfgs=["default", "flushy", "flushy2", "manual", "nolazy", "ext"]),
    "C37": dict(profile="C37", checked=["efos"], gen=None,
                quick_cfgs=["default", "flushy", "flushy2", "manual"]),
    "C38": dict(profile="C38", checked=["ckpt"], gen=None,
                # the known shape, built on purpose (the profile itself flushes before every ingest/excise)
                finding_script=[{"op": "commit", "ops": [{"o": "set", "k": 1, "v": 1}], "sync": False},
                                {"op": "ingest", "tables": [[{"o": "set", "k": 9, "v": 2}]], "ops": [{"o": "set", "k": 9, "v": 2}]},
                                {"op": "checkpoint", "flushwal": False, "spans": []}],
                quick_cfgs=["default", "flushy", "flushy2", "manual", "valsep", "bigvals"]),
    "C44": dict(profile="C44", checked=["latest", "snap", "view"], gen=["pt", "rk", "mt", "mt", "sn", "it", "ig"], itercls="view",
                quick_cfgs=["valsep", "valsep1", "valsepman"], all_cfgs=["valsep", "valsep1", "valsepman"], note_blob=True),
    "C45": dict(profile="C45", checked=["scanint"], gen=None,
                quick_cfgs=["default", "flushy", "flushy2", "manual", "valsep", "bigvals"]),
    # (not "nowal": Close does not flush, and without a WAL unflushed writes are documented to be lost)
    "C47": dict(profile="C47", checked=["close", "reopen"], gen=None,
                quick_cfgs=["default", "flushy", "flushy2", "manual", "valsep", "bigvals", "oldfmv"],
                all_cfgs=["default", "flushy", "flushy2", "manual", "bigvals", "valsep", "valsep1", "valsepman", "oldfmv", "nolazy"]),
}


UNIV = [P, S]   # the key universe of the run in progress (a property may choose another shape with the same 12 keys)


def trace_cfg(checked):
    return ("SPECIFICATION TraceSpec\nCONSTANTS\n  P = %d\n  S = %d\n  Checked = {%s}\n"
            "CONSTRAINT HWM\nPOSTCONDITION TraceAccepted\nCHECK_DEADLOCK FALSE\n"
            % (UNIV[0], UNIV[1], ", ".join('"%s"' % c for c in checked))).encode()


def gen_cfg(classes, itercls, masks, maxlen, maxsnaps=2, maxiters=2):
    return ("SPECIFICATION Spec\nCONSTANTS\n  P = %d\n  S = %d\n  MaxLen = %d\n  MaxSnaps = %d\n  MaxIters = %d\n"
            "  Classes = {%s}\n  IterCls = \"%s\"\n  Masks = %s\nINVARIANT Inv\nINVARIANT EmitInv\nCHECK_DEADLOCK FALSE\n"
            % (UNIV[0], UNIV[1], maxlen, maxsnaps, maxiters, ", ".join('"%s"' % c for c in sorted(set(classes))), itercls,
               "TRUE" if masks else "FALSE")).encode()


def design_check(run, tier):
    """model invariants, exhaustive in a small scope"""
    vlib.sany(SPECDIR, "KVGen")
    vlib.sany(SPECDIR, "KVTrace")
    maxlen = 3 if tier == "quick" else 4
    cfg = open(os.path.join(SPECDIR, "KVSanity.cfg")).read().replace("MaxLen = 3", "MaxLen = %d" % maxlen)
    r = vlib.tlc(SPECDIR, "KVGen", "KVSanityRun.cfg", workers=vlib.NCPU, timeout=3000, coverage=True,
                 extra_files={"KVSanityRun.cfg": cfg.encode()}, heap="12g")
    if r.timed_out:
        raise vlib.Inconclusive("KVSanity timed out")
    if not r.ok:
        raise vlib.Inconclusive("KVGen/KVSanity failed: the model violates its own invariant %s\n%s" % (r.violation, r.out[-3000:]))
    run.add_design("KVGen/KVSanity(P=2,S=1,MaxLen=%d)" % maxlen, r)
    return r


def gen_scripts(run, classes, itercls, masks, walks, maxlen, seed, out_path, per_prefix=1):
    """TLC simulation as behaviour generator -> file with one JSON script per line"""
    r = vlib.tlc(SPECDIR, "KVGen", "KVGenRun.cfg", workers=1, timeout=1800, simulate="num=%d" % walks,
                 depth=2 * maxlen + 10, seed=seed, extra_files={"KVGenRun.cfg": gen_cfg(classes, itercls, masks, maxlen)})
    if r.timed_out or r.violation:
        raise vlib.Inconclusive("KVGen simulation failed (%s)\n%s" % (r.violation, r.out[-2000:]))
    seen = {}
    n = 0
    with open(out_path, "w") as o:
        for l in r.out.splitlines():
            if not l.startswith('"['):
                continue
            try:
                s = json.loads(l)
                script = json.loads(s)
            except Exception:
                continue
            key = vlib.sha(json.dumps(script[:-1], sort_keys=True))
            if seen.get(key, 0) >= per_prefix:
                continue
            seen[key] = seen.get(key, 0) + 1
            o.write(json.dumps(script) + "\n")
            n += 1
    run.design["KVGen/simulate"] = dict(walks=walks, behaviours=n, generated=r.generated, wall_s=round(r.wall, 1))
    run.transitions += r.generated
    return n


def gen_scripts_exh(run, classes, maxlen, out_path):
    """every history of exactly maxlen calls over the (tiny) universe in force, by exhaustive TLC search"""
    cfg = gen_cfg(classes, "view", False, maxlen, maxsnaps=1, maxiters=0)
    r = vlib.tlc(SPECDIR, "KVGen", "KVExhRun.cfg", workers=1, timeout=3000, extra_files={"KVExhRun.cfg": cfg}, heap="10g")
    if r.timed_out or not r.ok:
        raise vlib.Inconclusive("KVGen exhaustive enumeration failed (%s)\n%s" % (r.violation, r.out[-2000:]))
    n = 0
    with open(out_path, "w") as o:
        for l in r.out.splitlines():
            if l.startswith('"['):
                o.write(json.dumps(json.loads(json.loads(l))) + "\n")
                n += 1
    if n == 0:
        raise vlib.Inconclusive("exhaustive enumeration produced no behaviour")
    run.design["KVGen/exhaustive(P=%d,S=%d,len=%d,%s)" % (UNIV[0], UNIV[1], maxlen, "+".join(sorted(classes)))] = dict(
        behaviours=n, distinct=r.distinct, wall_s=round(r.wall, 1))
    run.transitions += r.generated
    return n


def run_exh(run, pp, binp, checked):
    """small-scope exhaustive mode A: EVERY call history up to a length over a tiny key universe is replayed on
    the real DB (under rotating configurations) and the recorded traces are validated by KVTrace"""
    save = list(UNIV)
    total = 0
    try:
        for classes, maxlen, univ, ncfg in pp["exh"]["quick" if run.tier == "quick" else "thorough"]:
            UNIV[0], UNIV[1] = univ
            tdir = vlib.scratch("verif.kvexh.")
            sf = os.path.join(tdir, "scripts.jsonl")
            n = gen_scripts_exh(run, classes, maxlen, sf)
            env = dict(VERIF_OUT=tdir, VERIF_PROFILE=pp["profile"], VERIF_SEED=str(run.seed), VERIF_P=str(univ[0]), VERIF_S=str(univ[1]),
                       VERIF_CONFIGS="flushy,manual,default,flushy2,oldfmv", VERIF_SCRIPTFILE=sf, VERIF_SCRIPT_NCFG=str(ncfg))
            rc, out = vlib.run_driver(binp, "TestScript", env=env, timeout=3400)
            if "DRIVER-DONE" not in out:
                raise vlib.Inconclusive("dbdrv TestScript (exhaustive) died:\n" + out[-3000:])
            files = sorted(glob.glob(os.path.join(tdir, "S-*.ndjson")))
            ev, rej = validate_files(run, files, checked, run.prop + "-exh")
            total += n
            shutil.rmtree(tdir, ignore_errors=True)
    finally:
        UNIV[0], UNIV[1] = save
    run.cov["exhaustive_small_scope_histories_replayed"] = total


def attribute(ev, checked):
    """is the rejected event in the property's observable vocabulary?"""
    if not isinstance(ev, dict):
        return False
    op = ev.get("op")
    if op in ("fail", "closedb", "cleanreopen", "crashprobe", "reopen", "checkpoint", "scanint", "lsm", "removed", "dirlist"):
        return True
    return ev.get("cls") in checked


def validate_files(run, files, checked, label):
    """validate trace files in one TLC run per batch; on rejection record and continue after the file"""
    wd = vlib.scratch("verif.kvt.")
    rejected = 0
    files = list(files)
    cfgb = trace_cfg(checked)
    total_events = 0
    while files:
        allp = os.path.join(wd, "all.ndjson")
        n = vlib.concat_traces(files, allp)
        v = vlib.validate_trace(SPECDIR, "KVTrace", "KVTraceRun.cfg", allp, timeout=3000,
                                extra_files={"KVTraceRun.cfg": cfgb}, heap="8g")
        total_events += v.hwm
        if v.accepted:
            run.traces += len(files)
            break
        if v.tlc.violation or ("Error:" in v.tlc.out and "TraceAccepted" not in v.tlc.out):
            raise vlib.Inconclusive("trace spec error during validation:\n" + v.tlc.out[-3000:])
        c = 0
        hit = None
        for i, f in enumerate(files):
            k = sum(1 for _ in open(f)) + 1
            if c + k > v.hwm:
                hit = (i, f, v.hwm - c + 1)
                break
            c += k
        if hit is None:
            raise vlib.Inconclusive("cannot locate rejected line")
        i, f, line = hit
        run.traces += i
        ev = v.rejected_line
        if not attribute(ev, checked):
            raise vlib.Inconclusive("trace %s rejected at line %d on an event outside the checked vocabulary: %s"
                                    % (f, line, str(ev)[:400]))
        keep = os.path.join(run.outdir, os.path.basename(f))
        shutil.copy(f, keep)
        sig = {"kind": "trace-rejected", "op": ev.get("op"), "cls": ev.get("cls"), "label": label}
        if ev.get("op") == "checkpoint":
            from engines import crash   # the history-window classifier of the crash engine
            sig["shape"] = crash.window_shape(f, line)[0]
        run.violation(sig, "%s: real trace rejected by KVTrace at line %d: %s" % (os.path.basename(f), line, json.dumps(ev)[:500]),
                      replay_obj={"trace": keep, "line": line, "checked": checked,
                                  "cmd": "python3 /verif/vcheck run %s --tier %s --seed %d" % (run.prop, run.tier, run.seed)})
        rejected += 1
        files = files[i + 1:]
        if rejected >= 8:
            break
    return total_events, rejected


def corrupt_line(l):
    e = json.loads(l)
    op = e.get("op")
    if op == "get":
        e["res"] = [424242] + list(e["res"])
    elif op == "scan":
        e["pts"] = [[0, [424242]]] + list(e["pts"])
    elif op == "iter":
        e["res"] = {"valid": not e["res"].get("valid", False), "k": 0, "hp": True, "hr": False, "v": [424242], "rs": -1, "re": -1, "rkeys": []}
    elif op in ("checkpoint", "scanint", "cleanreopen"):
        if not e.get("ok", True):
            return None
        i = 0
        if op == "scanint":
            i = e["a"]
        elif op == "checkpoint" and e.get("spans"):
            i = e["spans"][0][0]
        pts = e["state"]["pts"]
        if i >= len(pts):
            return None
        pts[i] = list(pts[i]) + [424242]
    else:
        return None
    return json.dumps(e)


def binding_demo(run, files, checked):
    """corrupt one logged result / drop one event of an accepted real trace: TLC must reject both"""
    wd = vlib.scratch("verif.kvb.")
    cfgb = trace_cfg(checked)
    rng = random.Random(run.seed)
    cands = list(files)
    rng.shuffle(cands)
    done_corrupt = done_drop = False
    for f in cands[:12]:
        lines = [l.strip() for l in open(f) if l.strip()]
        if not done_corrupt:
            byop = {"ckpt": "checkpoint", "scanint": "scanint", "reopen": "cleanreopen"}
            ops = [byop[c] for c in checked if c in byop]
            idx = [i for i, l in enumerate(lines) if ('"cls":"' in l and json.loads(l).get("cls") in checked and json.loads(l).get("op") in ("get", "scan", "iter")
                                                       and '"st":' not in l)   # (a paused limited step carries no result to corrupt)
                   or json.loads(l).get("op") in ops]
            if idx:
                i = idx[len(idx) // 2]
                c = corrupt_line(lines[i])
                if c:
                    p = os.path.join(wd, "c.ndjson")
                    open(p, "w").write("\n".join(lines[:i] + [c] + lines[i + 1:]) + "\n")
                    v = vlib.validate_trace(SPECDIR, "KVTrace", "KVTraceRun.cfg", p, extra_files={"KVTraceRun.cfg": cfgb})
                    if v.accepted:
                        raise vlib.Inconclusive("binding demo: corrupted result at line %d of %s was ACCEPTED" % (i + 1, f))
                    if v.hwm != i:
                        raise vlib.Inconclusive("binding demo: corrupted line %d but TLC stopped at %d" % (i + 1, v.hwm + 1))
                    done_corrupt = True
        if not done_drop:
            tries = 0
            for i in range(len(lines) - 1, -1, -1):
                l = lines[i]
                if l.startswith('{"op":"commit"') and '"o":"set"' in l:
                    p = os.path.join(wd, "d.ndjson")
                    open(p, "w").write("\n".join(lines[:i] + lines[i + 1:]) + "\n")
                    v = vlib.validate_trace(SPECDIR, "KVTrace", "KVTraceRun.cfg", p, extra_files={"KVTraceRun.cfg": cfgb})
                    tries += 1
                    if not v.accepted:
                        done_drop = True
                    if done_drop or tries >= 4:
                        break
        if done_corrupt and done_drop:
            break
    if not (done_corrupt and done_drop):
        raise vlib.Inconclusive("binding demo could not be completed (corrupt=%s drop=%s)" % (done_corrupt, done_drop))
    run.cov["binding_demo"] = "one corrupted result and one dropped commit of accepted real traces were both rejected by TLC"


def binding_demo_crash(run, files, checked):
    """corrupt the recovered state of one accepted probe -> TLC must reject exactly there"""
    wd = vlib.scratch("verif.kvb.")
    cfgb = trace_cfg(checked)
    for f in files[:6]:
        lines = [l.strip() for l in open(f) if l.strip()]
        idx = [i for i, l in enumerate(lines) if '"op":"crashprobe"' in l and '"ok":true' in l]
        if not idx:
            continue
        i = idx[len(idx) // 2]
        e = json.loads(lines[i])
        if checked == ["crash22"]:
            if not e.get("hasfiles"):
                continue
            e["files"] = list(e["files"]) + [424242]
        else:
            pts = e["state"]["pts"]
            pts[0] = list(pts[0]) + [424242]
        p = os.path.join(wd, "c.ndjson")
        open(p, "w").write("\n".join(lines[:i] + [json.dumps(e)] + lines[i + 1:]) + "\n")
        v = vlib.validate_trace(SPECDIR, "KVTrace", "KVTraceRun.cfg", p, extra_files={"KVTraceRun.cfg": cfgb})
        if v.accepted or v.hwm != i:
            raise vlib.Inconclusive("binding demo: corrupted recovered state at line %d of %s: accepted=%s hwm=%d" % (i + 1, f, v.accepted, v.hwm))
        run.cov["binding_demo"] = "a recovered state with one foreign value id was rejected by TLC at exactly that probe"
        return
    raise vlib.Inconclusive("binding demo: no probe found to corrupt")


OPCLASS = (("closedb", "close"), ("cleanreopen", "reopen"), ("checkpoint", "ckpt"))


def stats(files, checked):
    """count checked events and distinct non-trivial traces"""
    evals = 0
    distinct = set()
    for f in files:
        n = 0
        h = vlib.hashlib.sha1()
        for l in open(f):
            if '"cls":"' in l:
                i = l.find('"cls":"') + 7
                if l[i:l.find('"', i)] in checked:
                    n += 1
            else:
                # class-less events that a class of Checked asserts
                for op, cls in OPCLASS:
                    if cls in checked and ('"op":"%s"' % op) in l:
                        n += 1
            h.update(l.encode())
        evals += n
        # (C47 has two evaluations per trace: the Close and the reopened state)
        if n >= (2 if "close" in checked else 3):
            distinct.add(h.hexdigest())
    return evals, len(distinct)


def run_kv(run, prop=None):
    prop = prop or run.prop
    pp = PROPS[prop]
    tier = run.tier
    quick = tier == "quick"
    UNIV[0], UNIV[1] = pp.get("univ", (P, S))
    design_check(run, tier)
    binp = vlib.build_driver("internal/verif/dbdrv")
    tdir = vlib.scratch("verif.kvtr.")
    cfgs = pp["quick_cfgs"] if quick else pp.get("all_cfgs", ALLCFG)
    env = dict(VERIF_OUT=tdir, VERIF_PROFILE=pp["profile"], VERIF_SEED=str(run.seed), VERIF_P=str(UNIV[0]), VERIF_S=str(UNIV[1]),
               VERIF_CONFIGS=",".join(cfgs), VERIF_SCRIPTS=str(25 if quick else 300), VERIF_STEPS=str(40 if quick else 60))
    rc, out = vlib.run_driver(binp, "TestDrive", env=env, timeout=3000)
    if "DRIVER-DONE" not in out:
        bp = vlib.pebble_background_panic(out)
        if bp:
            run.violation({"kind": "pebble-background-panic", "label": prop},
                          "a background goroutine of the store under test panicked during the workload: " + bp,
                          replay_obj={"cmd": "python3 /verif/vcheck run %s --tier %s --seed %d" % (run.prop, run.tier, run.seed),
                                      "output_tail": out[-4000:]})
            return
        raise vlib.Inconclusive("dbdrv TestDrive died:\n" + out[-3000:])
    # mode A: TLC-generated behaviours
    if pp.get("gen"):
        sf = os.path.join(tdir, "scripts.jsonl")
        n = gen_scripts(run, pp["gen"], pp["itercls"], pp.get("masks", False), walks=(60 if quick else 1500),
                        maxlen=(25 if quick else 30), seed=run.seed, out_path=sf)
        env2 = dict(env)
        env2["VERIF_SCRIPTFILE"] = sf
        rc, out2 = vlib.run_driver(binp, "TestScript", env=env2, timeout=3000)
        if "DRIVER-DONE" not in out2:
            raise vlib.Inconclusive("dbdrv TestScript died:\n" + out2[-3000:])
        run.cov["tlc_generated_behaviours_replayed"] = n
    files = sorted(glob.glob(os.path.join(tdir, "*.ndjson")))
    if not files:
        raise vlib.Inconclusive("no traces produced")
    checked = pp["checked"]
    events, rejected = validate_files(run, files, checked, prop)
    if rejected == 0:
        binding_demo(run, files, checked)
    if pp.get("exh"):
        run_exh(run, pp, binp, checked)
    if pp.get("finding_script"):
        # a scripted history that exhibits a recorded known finding: its rejection carries the finding's
        # signature (KNOWN-FINDING line); once the code no longer shows it the trace is simply accepted
        fdir = vlib.scratch("verif.kvfind.")
        sf = os.path.join(fdir, "scripts.jsonl")
        open(sf, "w").write(json.dumps(pp["finding_script"]) + "\n")
        envf = dict(VERIF_OUT=fdir, VERIF_PROFILE=pp["profile"], VERIF_SEED=str(run.seed), VERIF_P=str(UNIV[0]), VERIF_S=str(UNIV[1]),
                    VERIF_CONFIGS="manual", VERIF_SCRIPTFILE=sf, VERIF_SCRIPT_NCFG="1")
        rc, outf = vlib.run_driver(binp, "TestScript", env=envf, timeout=600)
        if "DRIVER-DONE" not in outf:
            raise vlib.Inconclusive("dbdrv TestScript (finding script) died:\n" + outf[-2000:])
        validate_files(run, sorted(glob.glob(os.path.join(fdir, "S-*.ndjson"))), checked, prop + "F")
    evals, distinct = stats(files, checked)
    run.cov["evaluations"] = evals
    run.cov["distinct_nontrivial"] = distinct
    run.cov["rule"] = ("evaluations = logged results of class %s asserted by KVTrace against the model; a trace is non-trivial "
                       "when it holds >= %d such results; distinct by content hash. Workloads: seeded random driver profile %s "
                       "and TLC-generated behaviours, each under configurations %s" % (checked, 2 if "close" in checked else 3, pp["profile"], cfgs))
    run.cov["trace_events"] = events
    run.cov["configs"] = cfgs
    if pp.get("note_blob"):
        nb = ns = 0
        for f in files:
            for l in open(f):
                if l.startswith('{"blobfiles"'):
                    e = json.loads(l)
                    nb += e["blobfiles"]
                    ns += e["ssts"]
        run.cov["blob_files_live_at_close"] = nb
        run.cov["sstables_live_at_close"] = ns
        if nb == 0:
            raise vlib.Inconclusive("value separation never produced a blob file: the run would be vacuous for C44")
    for f in files[:2]:
        ls = [json.loads(l) for l in list(open(f))[:6]]
        run.sample({"trace": os.path.basename(f), "first_events": ls})
    run.assumptions += [
        "the model's key universe is %d prefixes x (bare + %d suffixes) with the testkeys comparer; values are ids with id-dependent padding" % (UNIV[0], UNIV[1]),
        "SingleDelete/DeleteSized are generated only inside their documented contracts",
        "TLC's verdict on each trace is authoritative; the Go driver only executes and records",
    ]
