"""LSM engine: C15 (level invariant) and C39 (file liveness).
  design : LSM.tla (memtable / L0 / L1, snapshots, flush, age-closed L0 compaction with stripes and elision, ingest
           placement, pinned readers, obsolete-file deletion): Refinement, ReaderStable, LevelInv, FilesLive, NoLeakPossible;
           five seeded bugs that TLC must catch
  binding: dbdrv TestLSM (mode B): after every step of a seeded workload the real structure is dumped - every table of the
           current version with bounds and seqnum range, every internal point key with its position (memtable queue / L0
           sublevel / level, from ScanInternal with IteratorLevel) - plus pin/unpin of the physical files an iterator's
           version references, every removal of a table file from the directory, and the directory listing at quiescence and
           after reopen.  TLC (KVTrace: Lsm, Pin, Unpin, Removed, DirList) decides."""
import glob, json, os
import vlib
from engines import kv

LSM = os.path.join(vlib.SPEC, "LSM")
SPEC_MODULES = [("LSM", "LSM")]
BUGS = [("Bug_IgnoreSnaps.cfg", "Refinement"), ("Bug_ElideAnyStripe.cfg", "Refinement"), ("Bug_PickNewest.cfg", None),
        ("Bug_IngestBelow.cfg", None), ("Bug_DeletePinned.cfg", "FilesLive")]


def design(run):
    vlib.sany(LSM, "LSM")
    for cfg, expect in BUGS:
        r = vlib.tlc_must_fail(LSM, "LSM", cfg, expect=expect, workers=4, timeout=900)
        run.design["LSM/" + cfg] = dict(caught=r.violation, generated=r.generated)
    base = open(os.path.join(LSM, "LSM.cfg")).read()
    if run.tier == "quick":
        for name, rep in [("snapshots,no-readers", ("MaxReaders = 1", "MaxReaders = 0")), ("readers,no-snapshots", ("MaxSnaps = 1", "MaxSnaps = 0"))]:
            r = vlib.tlc_must_pass(LSM, "LSM", "Q.cfg", workers=vlib.NCPU, timeout=900, coverage=False,
                                   extra_files={"Q.cfg": base.replace(*rep).encode()})
            run.add_design("LSM(NKeys=2,MaxSeq=3;%s)" % name, r)
    else:
        r = vlib.tlc_must_pass(LSM, "LSM", "LSM.cfg", workers=vlib.NCPU, timeout=2400, heap="16g")
        run.add_design("LSM(NKeys=2,MaxSeq=3,MaxSnaps=1,MaxReaders=1)", r)
        r = vlib.tlc(LSM, "LSM", "S.cfg", workers=vlib.NCPU, timeout=600, simulate="num=200000", depth=40, seed=run.seed,
                     extra_files={"S.cfg": base.replace("MaxSeq = 3", "MaxSeq = 6").replace("NKeys = 2", "NKeys = 3").encode()})
        if r.violation:
            raise vlib.Inconclusive("LSM simulation found a violation of %s on the unmodified spec" % r.violation)
        run.design["LSM/simulate(NKeys=3,MaxSeq=6)"] = r.summary()
        run.transitions += r.generated


def run_lsm(run):
    prop = run.prop
    quick = run.tier == "quick"
    design(run)
    binp = vlib.build_driver("internal/verif/dbdrv")
    tdir = vlib.scratch("verif.lsm.")
    env = dict(VERIF_OUT=tdir, VERIF_SEED=str(run.seed), VERIF_SCRIPTS=str(16 if quick else 240), VERIF_STEPS=str(40 if quick else 60),
               VERIF_CONFIGS="manual,valsepman,flushy2,default,bigvals,oldfmv" if quick else
               "manual,valsepman,flushy2,default,bigvals,oldfmv,flushy,valsep,valsep1,nolazy")
    code, out = vlib.run_driver(binp, "TestLSM", env=env, timeout=3000)
    if "DRIVER-DONE" not in out:
        raise vlib.Inconclusive("dbdrv TestLSM died:\n" + out[-3000:])
    files = sorted(glob.glob(os.path.join(tdir, "*.ndjson")))
    checked = ["lsm"] if prop == "C15" else ["c39"]
    events, rejected = kv.validate_files(run, files, checked, prop)
    dumps = tables = keys = removed = pins = dirl = 0
    distinct = set()
    for f in files:
        for l in open(f):
            if l.startswith('{"files"') and '"op":"lsm"' in l:
                e = json.loads(l)
                dumps += 1
                tables += len(e["files"])
                keys += len(e["keys"])
                if len(e["files"]) >= 2:
                    distinct.add(vlib.sha(json.dumps([e["files"], e["keys"]])))
            elif '"op":"removed"' in l:
                removed += 1
            elif '"op":"pin"' in l:
                pins += 1
            elif '"op":"dirlist"' in l:
                dirl += 1
    if prop == "C15":
        run.cov["evaluations"] = dumps
        run.cov["distinct_nontrivial"] = len(distinct)
        run.cov["rule"] = ("one evaluation = one dump of the real LSM after a workload step, checked by TLC: levels >= 1 disjoint, per user key "
                           "sequence numbers strictly decrease from newer to older positions, every key within the bounds and seqnum range of a "
                           "table of its level; non-trivial = at least two tables; distinct by content")
        run.cov["tables_checked"] = tables
        run.cov["internal_keys_checked"] = keys
    else:
        run.cov["evaluations"] = removed + dirl + dumps
        run.cov["distinct_nontrivial"] = removed + dirl
        run.cov["rule"] = ("evaluations = table-file removals (each must not be referenced by a pinned version then, nor by any later version), "
                           "directory listings at quiescence / after reopen (must equal the live set; blob count too) and version dumps; "
                           "non-trivial = removals and listings")
        run.cov["removals"] = removed
        run.cov["pins"] = pins
        run.cov["directory_listings"] = dirl
        if removed < 5 or pins < 2:
            raise vlib.Inconclusive("too few removals/pins observed (%d/%d)" % (removed, pins))
    if not run.violations:
        demo(run, files, checked)
    for f in files[:1]:
        for l in open(f):
            if '"op":"lsm"' in l and len(l) > 200:
                run.sample({"trace": os.path.basename(f), "event": json.loads(l)})
                break
    run.assumptions += [
        "range deletions and range keys are not position-checked (ScanInternal reports levels for point keys only); table bounds include them",
        "a removal is judged against the versions pinned by open iterators as recorded at their creation (when the table list was stable around it) and against every later version dump",
        "WAL files are not part of this check (recycling keeps obsolete logs on purpose); crash recovery of needed WALs is covered by C10-C12",
    ]


def demo(run, files, checked):
    """binding demonstration: make a logged structure wrong -> TLC must reject at that line"""
    wd = vlib.scratch("verif.lsmb.")
    cfgb = kv.trace_cfg(checked)
    for f in files[:8]:
        lines = [l.strip() for l in open(f) if l.strip()]
        cand = None
        for i, l in enumerate(lines):
            e = json.loads(l)
            if checked == ["lsm"] and e.get("op") == "lsm" and len(e["keys"]) >= 1 and any(k[3] >= 0 for k in e["keys"]):
                k = [x for x in e["keys"] if x[3] >= 0][0]
                k[1] = 10 ** 6   # a sequence number outside every table's range
                cand = (i, e)
                break
            if checked == ["c39"] and e.get("op") == "dirlist":
                e["ssts"] = list(e["ssts"]) + [424242]
                cand = (i, e)
                break
        if cand is None:
            continue
        i, e = cand
        p = os.path.join(wd, "c.ndjson")
        open(p, "w").write("\n".join(lines[:i] + [json.dumps(e)] + lines[i + 1:]) + "\n")
        v = vlib.validate_trace(kv.SPECDIR, "KVTrace", "KVTraceRun.cfg", p, extra_files={"KVTraceRun.cfg": cfgb})
        if v.accepted or v.hwm != i:
            raise vlib.Inconclusive("binding demo: corrupted structure at line %d of %s: accepted=%s hwm=%d" % (i + 1, f, v.accepted, v.hwm))
        run.cov["binding_demo"] = "a corrupted structure dump / directory listing of an accepted real trace was rejected by TLC at exactly that line"
        return
    raise vlib.Inconclusive("binding demo: nothing to corrupt")


def REGISTER(reg):
    note = ("Trusted: TLC; DB.SSTables and ScanInternal's IteratorLevel as the window onto the physical structure; the driver's recording. "
            "Bounded: 12-key universe, 40-60 step histories, the listed configurations (manual and automatic compactions).")
    reg("C15", "LSM level invariant holds after every operation", run_lsm,
        "LSM.tla (exhaustive, 5 seeded bugs) states the invariant; after every step of seeded workloads (writes, ingests, excises, flushes, manual "
        "and automatic compactions) the real structure is dumped and TLC checks disjointness of levels >= 1, per-key seqnum order across "
        "positions (memtables > L0 sublevels > L1..L6) and containment of every key in the bounds/seqnum range of a table of its level.",
        note, "TLA+ model (LSM.tla) + TLC validation of dumps of the real LSM structure after every step", "DESIGN 6/C15", engine="lsm")
    reg("C39", "No live file is deleted and no dead file lingers", run_lsm,
        "LSM.tla!FilesLive/NoLeakPossible (exhaustive; Bug_DeletePinned caught); on the real DB every removal of a table file is validated by TLC "
        "against the versions pinned by open iterators and against every later version, and at quiescence (handles closed, no job running, "
        "deleter drained) and after reopen the directory must hold exactly the live tables (and as many blob files as are live). "
        "Not covered here: files 'still needed for recovery' (WALs, tables referenced only by a WAL record of a flushable ingest) - the store "
        "is never crashed by this engine; that clause is exercised by the crash workloads of C10/C11 (see DESIGN 13, C39_flushable_ingests_replay).",
        note, "TLA+ model (LSM.tla) + TLC validation of file-removal / pin / directory-listing traces of the real DB", "DESIGN 6/C39", engine="lsm")
