import sys,subprocess,re
WT='/var/tmp/wt_commit'
def sub(path, old, new, count=1):
    s=open(WT+'/'+path).read()
    assert s.count(old)>=1, (path, old[:40])
    s=s.replace(old,new,count); open(WT+'/'+path,'w').write(s)
m=sys.argv[1]
if m=='M1_applied_early':
    sub('commit.go','''	// Apply the batch to the memtable.
	if err := p.env.apply(b, mem); err != nil {''','''	// Apply the batch to the memtable.
	b.applied.Store(true)
	if err := p.env.apply(b, mem); err != nil {''')
elif m=='M2_store_not_cas':
    sub('commit.go','''			if p.env.visibleSeqNum.CompareAndSwap(curSeqNum, newSeqNum) {
				// We successfully published t's sequence number.
				break
			}''','''			p.env.visibleSeqNum.Store(newSeqNum)
			break''')
elif m=='M3_fb_seq_after_queue':
    sub('db.go','''		b.flushable.setSeqNum(b.SeqNum())
		if !d.opts.DisableWAL {''','''		if !d.opts.DisableWAL {''')
    sub('db.go','''	if err != nil {
		return nil, err
	}
	if d.opts.DisableWAL {
		return mem, nil
	}
	d.logBytesIn.Add(uint64(len(repr)))''','''	if b.flushable != nil {
		b.flushable.setSeqNum(b.SeqNum())
	}
	if err != nil {
		return nil, err
	}
	if d.opts.DisableWAL {
		return mem, nil
	}
	d.logBytesIn.Add(uint64(len(repr)))''')
elif m=='M3b_write_before_seq':
    sub('commit.go','''	b.setSeqNum(p.env.logSeqNum.Add(base.SeqNum(n)) - base.SeqNum(n))

	// Write the data to the WAL.
	mem, err := p.env.write(b, syncWG, syncErr)
''','''	// Write the data to the WAL.
	mem, err := p.env.write(b, syncWG, syncErr)
	b.setSeqNum(p.env.logSeqNum.Add(base.SeqNum(n)) - base.SeqNum(n))
''')
elif m=='M4_reader_seq_first':
    sub('db.go','''	var readState *readState
	var newIters tableNewIters''','''	if seqNum == 0 && !newIterOpts.batch.batchOnly {
		seqNum = d.mu.versions.visibleSeqNum.Load()
	}
	var readState *readState
	var newIters tableNewIters''')
    sub('get.go','''	readState := d.loadReadState()

	// Determine the seqnum to read at after grabbing the read state (current and
	// memtables) above.
	var seqNum base.SeqNum
	if s != nil {
		seqNum = s.seqNum
	} else {
		seqNum = d.mu.versions.visibleSeqNum.Load()
	}''','''	var seqNum base.SeqNum
	if s != nil {
		seqNum = s.seqNum
	} else {
		seqNum = d.mu.versions.visibleSeqNum.Load()
	}
	readState := d.loadReadState()''')
elif m=='M5_unref_before_apply':
    sub('db.go','''	err := mem.apply(b, b.SeqNum())
	if err != nil {
		return err
	}
''','''	if mem.writerUnref() {
		d.mu.Lock()
		d.maybeScheduleFlush()
		d.mu.Unlock()
	}
	err := mem.apply(b, b.SeqNum())
	if err != nil {
		return err
	}
''')
    sub('db.go','''	if mem.writerUnref() {
		d.mu.Lock()
		d.maybeScheduleFlush()
		d.mu.Unlock()
	}
	return nil
}''','''	return nil
}''')
elif m=='M6_alloc_no_wait':
    sub('commit.go','''		if visibleSeqNum == logSeqNum {
			break
		}
		runtime.Gosched()''','''		_ = visibleSeqNum
		break''')
